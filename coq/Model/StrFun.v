(* C20 model, part 2: string functions of src/sql/functions/string.rs on UTF-8 byte strings
   (repaired tree: fix commits 6ca9f39, c7e0f53, 9fda373).  Transcription (definitions only).  A Rust `&str` is a byte list that decodes ([Utf8.decode_utf8]);
   `text.chars()` is the decoding, `.collect::<String>()` / `push(char)` the encoding,
   `text.len()` and `haystack.find(needle)` work on BYTES - exactly as written in the code.
   Arguments are Text / Int / NULL values ([Arith.val]); an Int where the code expects text
   (converted with to_string()) is outside the model ([OUnmod]) and never generated.

   Spec ([str_exact]): the same functions defined on code points (characters), the documented meaning. *)
From Coq Require Import ZArith List Bool.
From TV Require Import Lib.MachInt Model.Arith Model.Utf8.
Import ListNotations.
Open Scope Z_scope.

Definition zlen {A} (l : list A) : Z := Z.of_nat (length l).
(* iterator .take(n) / .skip(n) for n >= 0 (n may be as large as usize::MAX: never converted to nat) *)
Definition take_z {A} (n : Z) (l : list A) : list A := firstn (Z.to_nat (Z.min n (zlen l))) l.
Definition skip_z {A} (n : Z) (l : list A) : list A := skipn (Z.to_nat (Z.min n (zlen l))) l.

(* sizes up to which REPEAT / SPACE / LPAD / RPAD results are modelled (beyond: huge allocations, not exercised) *)
Definition max_model : Z := 65536.

Fixpoint prefixb (n h : list Z) : bool :=
  match n, h with
  | [], _ => true
  | _ :: _, [] => false
  | x :: n', y :: h' => (x =? y) && prefixb n' h'
  end.

(* str::find: offset of the first occurrence, counted in list elements from i *)
Fixpoint find_from (n h : list Z) (i : Z) {struct h} : option Z :=
  if prefixb n h then Some i
  else match h with
       | [] => None
       | _ :: t => find_from n t (i + 1)
       end.

(* the part of h before the first occurrence of n *)
Fixpoint find_pre (n h : list Z) {struct h} : option (list Z) :=
  if prefixb n h then Some []
  else match h with
       | [] => None
       | c :: t => option_map (cons c) (find_pre n t)
       end.

(* char::is_whitespace: the Unicode White_Space property *)
Definition is_ws (c : Z) : bool :=
  ((9 <=? c) && (c <=? 13)) || (c =? 32) || (c =? 133) || (c =? 160) || (c =? 5760) ||
  ((8192 <=? c) && (c <=? 8202)) || (c =? 8232) || (c =? 8233) || (c =? 8239) || (c =? 8287) || (c =? 12288).

Fixpoint drop_while (p : Z -> bool) (l : list Z) : list Z :=
  match l with
  | [] => []
  | c :: t => if p c then drop_while p t else l
  end.
Definition trim_start_by (p : Z -> bool) (l : list Z) : list Z := drop_while p l.
Definition trim_end_by (p : Z -> bool) (l : list Z) : list Z := rev (drop_while p (rev l)).
Definition trim_by (p : Z -> bool) (l : list Z) : list Z := trim_end_by p (trim_start_by p l).

Definition ascii_up (c : Z) : Z := if (97 <=? c) && (c <=? 122) then c - 32 else c.
Definition ascii_low (c : Z) : Z := if (65 <=? c) && (c <=? 90) then c + 32 else c.

(* pad_chars[i % pad_chars.len()] for i in 0..k *)
Definition cycle (pad : list Z) (k : Z) : list Z :=
  map (fun i => nth (Z.to_nat (Z.of_nat i mod zlen pad)) pad 0) (seq 0 (Z.to_nat k)).

(* Ord for str: bytewise lexicographic; -1 / 0 / 1 *)
Fixpoint cmp_lex (a b : list Z) : Z :=
  match a, b with
  | [], [] => 0
  | [], _ :: _ => -1
  | _ :: _, [] => 1
  | x :: a', y :: b' => if x <? y then -1 else if y <? x then 1 else cmp_lex a' b'
  end.

Inductive sfn := SLength | SCharLength | SAscii | SUpper | SLower | SLeft | SRight | SSubstr | SReverse
               | SLpad | SRpad | SInstr | SLocate | SRepeat | SSpace | STrim | SLtrim | SRtrim
               | SConcat | SStrcmp | SInsert.

(* get_text(args.get(i)?)? / get_int(args.get(i)?)? *)
Definition arg_text (args : list val) (i : nat) (k : list Z -> out) : out :=
  match nth_error args i with
  | None => ONone
  | Some (VText s) => k s
  | Some VNull => ONone
  | Some _ => OUnmod
  end.
Definition arg_int (args : list val) (i : nat) (k : Z -> out) : out :=
  match nth_error args i with
  | None => ONone
  | Some (VInt n) => k n
  | Some VNull => ONone
  | Some _ => OUnmod
  end.
(* match args.get(i) { Some(v) => Some(get_int(v)?), None => None }: an absent optional argument is None,
   a NULL one makes the function return None *)
Definition opt_arg_int (args : list val) (i : nat) (k : option Z -> out) : out :=
  match nth_error args i with
  | None => k None
  | Some (VInt n) => k (Some n)
  | Some VNull => ONone
  | Some _ => OUnmod
  end.

Definition with_chars (s : list Z) (k : list Z -> out) : out :=
  match decode_utf8 s with Some cs => k cs | None => OUnmod end.
Definition text (cs : list Z) : out := OVal (VText (encode_utf8 cs)).
Definition empty_text : out := OVal (VText []).

Fixpoint concat_args (args : list val) (acc : list Z) : out :=
  match args with
  | [] => OVal (VText acc)
  | VText s :: t => concat_args t (acc ++ s)
  | VNull :: _ => OVal VNull
  | _ :: _ => OUnmod
  end.

Definition pad_common (left : bool) (args : list val) : out :=
  arg_text args 0 (fun s =>
  arg_int args 1 (fun n =>
  arg_text args 2 (fun pad =>
  if n <? 0 then OVal VNull else                                 (* if target_len < 0 { return Some(Value::Null) } *)
  let tl := n in
  with_chars s (fun cs =>
  let cc := zlen cs in
  if tl <=? cc then text (take_z tl cs)
  else if blen pad =? 0 then OVal (VText s)
  else with_chars pad (fun pcs =>
       if tl <=? max_model then
         text (if left then cycle pcs (tl - cc) ++ cs else cs ++ cycle pcs (tl - cc))
       else OUnmod))))).

Definition eval_sfn (f : sfn) (args : list val) : out :=
  match f with
  | SLength => arg_text args 0 (fun s => OVal (VInt (blen s)))                          (* text.len() *)
  | SCharLength => arg_text args 0 (fun s => with_chars s (fun cs => OVal (VInt (zlen cs))))
  | SAscii => arg_text args 0 (fun s => with_chars s (fun cs => OVal (VInt (match cs with c :: _ => c | [] => 0 end))))
  | SUpper => arg_text args 0 (fun s => if forallb (fun b => b <? 128) s then OVal (VText (map ascii_up s)) else OUnmod)
  | SLower => arg_text args 0 (fun s => if forallb (fun b => b <? 128) s then OVal (VText (map ascii_low s)) else OUnmod)
  | SLeft => arg_text args 0 (fun s => arg_int args 1 (fun n =>
               if n <? 0 then empty_text else with_chars s (fun cs => text (take_z n cs))))
  | SRight => arg_text args 0 (fun s => arg_int args 1 (fun n =>
               if n <? 0 then empty_text
               else with_chars s (fun cs => text (skip_z (zlen cs - Z.min n (zlen cs)) cs))))
  | SSubstr => arg_text args 0 (fun s => arg_int args 1 (fun pos => opt_arg_int args 2 (fun len =>
               with_chars s (fun cs =>
               let go := fun start =>
                 match len with
                 | Some l => if 0 <=? l then text (take_z l (skip_z start cs)) else empty_text
                 | None => text (skip_z start cs)
                 end in
               if 0 <? pos then go (pos - 1)
               else if pos <? 0 then go (Z.max 0 (zlen cs - (- pos)))        (* saturating_sub(pos.unsigned_abs()) *)
               else empty_text))))
  | SReverse => arg_text args 0 (fun s => with_chars s (fun cs => text (rev cs)))
  | SLpad => pad_common true args
  | SRpad => pad_common false args
  | SInstr => arg_text args 0 (fun hay => arg_text args 1 (fun needle =>
               match find_from needle hay 0 with
               | None => OVal (VInt 0)
               | Some p =>
                   match decode_utf8 (firstn (Z.to_nat p) hay) with            (* haystack[..p].chars().count() + 1 *)
                   | Some pre => OVal (VInt (zlen pre + 1))
                   | None => OPanic                                           (* slice end inside a character *)
                   end
               end))
  | SLocate => arg_text args 0 (fun needle => arg_text args 1 (fun hay => opt_arg_int args 2 (fun st =>
               let start := match st with Some k => k | None => 1 end in
               if start <? 1 then OVal (VInt 0)
               else with_chars hay (fun cs =>
                 let ss := start - 1 in
                 if zlen cs <=? ss then OVal (VInt 0)
                 else
                   let search := encode_utf8 (skip_z ss cs) in
                   match find_from needle search 0 with
                   | None => OVal (VInt 0)
                   | Some p =>
                       match decode_utf8 (firstn (Z.to_nat p) search) with     (* search_str[..byte_pos].chars().count() *)
                       | Some pre => OVal (VInt (zlen pre + ss + 1))
                       | None => OPanic                                        (* slice end inside a character *)
                       end
                   end))))
  | SRepeat => arg_text args 0 (fun s => arg_int args 1 (fun n =>
               if n <=? 0 then empty_text
               else if blen s =? 0 then empty_text
               else if n * blen s <=? max_model then OVal (VText (concat (repeat s (Z.to_nat n))))
               else OUnmod))
  | SSpace => arg_int args 0 (fun n =>
               if n <=? 0 then empty_text
               else if n <=? max_model then OVal (VText (repeat 32 (Z.to_nat n))) else OUnmod)
  | STrim => arg_text args 0 (fun s => with_chars s (fun cs => text (trim_by is_ws cs)))
  | SLtrim => arg_text args 0 (fun s => with_chars s (fun cs => text (trim_start_by is_ws cs)))
  | SRtrim => arg_text args 0 (fun s => with_chars s (fun cs => text (trim_end_by is_ws cs)))
  | SConcat => concat_args args []
  | SStrcmp => arg_text args 0 (fun a => arg_text args 1 (fun b => OVal (VInt (cmp_lex a b))))
  | SInsert => arg_text args 0 (fun s => arg_int args 1 (fun pos => arg_int args 2 (fun len => arg_text args 3 (fun new =>
               if (pos <? 1) || (len <? 0) then OVal (VText s)
               else with_chars s (fun cs =>
                 let start := pos - 1 in
                 if zlen cs <? start then OVal (VText s)
                 else
                   let e := Z.min (start + len) (zlen cs) in
                   OVal (VText (encode_utf8 (take_z start cs) ++ new ++ encode_utf8 (skip_z e cs))))))))
  end.

(* ------------------------------------------------------------------ Spec: on characters (code points) *)
(* SText cps : the result must be the text with these code points     SInt z : this integer
   SNull : NULL      SAny : not judged (dialects differ, or outside the documented domain) - but never a panic *)
Inductive sres := SText (cps : list Z) | SInt (z : Z) | SNull | SAny.

Definition cps_of (v : val) : option (list Z) := match v with VText s => decode_utf8 s | _ => None end.
Definition is_null (v : val) : bool := match v with VNull => true | _ => false end.
Definition is_space (c : Z) : bool := c =? 32.

Definition list_eqb := zlist_eqb.

Definition str_exact (f : sfn) (args : list val) : sres :=
  if existsb is_null args then SNull                                      (* NULL in, NULL out *)
  else
  match f, args with
  | SLength, [VText s] => SInt (blen s)                                   (* documented: byte length *)
  | SCharLength, [a] => match cps_of a with Some cs => SInt (zlen cs) | None => SAny end
  | SAscii, [a] => match cps_of a with
                   | Some [] => SInt 0
                   | Some (c :: _) => if c <? 128 then SInt c else SAny
                   | None => SAny end
  | SUpper, [a] => match cps_of a with Some cs => if is_ascii cs then SText (map ascii_up cs) else SAny | None => SAny end
  | SLower, [a] => match cps_of a with Some cs => if is_ascii cs then SText (map ascii_low cs) else SAny | None => SAny end
  | SLeft, [a; VInt n] => match cps_of a with Some cs => SText (if n <? 0 then [] else take_z n cs) | None => SAny end
  | SRight, [a; VInt n] => match cps_of a with
                           | Some cs => SText (if n <? 0 then [] else skip_z (zlen cs - Z.min n (zlen cs)) cs)
                           | None => SAny end
  | SSubstr, a :: VInt pos :: rest =>
      match cps_of a with
      | None => SAny
      | Some cs =>
          if pos =? 0 then SText []
          else if pos <? - zlen cs then SAny                               (* counting from the end past the start: dialects differ *)
          else
            let start := if 0 <? pos then pos - 1 else zlen cs + pos in
            match rest with
            | [] => SText (skip_z start cs)
            | [VInt l] => SText (if l <? 1 then [] else take_z l (skip_z start cs))
            | _ => SAny
            end
      end
  | SReverse, [a] => match cps_of a with Some cs => SText (rev cs) | None => SAny end
  | SLpad, [a; VInt n; p] | SRpad, [a; VInt n; p] =>
      match cps_of a, cps_of p with
      | Some cs, Some pcs =>
          if n <? 0 then SAny
          else if n <=? zlen cs then SText (take_z n cs)
          else match pcs with
               | [] => SAny
               | _ => if n <=? max_model
                      then SText (match f with SLpad => cycle pcs (n - zlen cs) ++ cs | _ => cs ++ cycle pcs (n - zlen cs) end)
                      else SAny
               end
      | _, _ => SAny
      end
  | SInstr, [h; n] =>
      match cps_of h, cps_of n with
      | Some hc, Some nc => SInt (match find_pre nc hc with Some pre => zlen pre + 1 | None => 0 end)    (* CHARACTER position *)
      | _, _ => SAny
      end
  | SLocate, n :: h :: rest =>
      match cps_of n, cps_of h with
      | Some nc, Some hc =>
          match nc, rest with
          | [], _ => SAny
          | _, [] => SInt (match find_pre nc hc with Some pre => zlen pre + 1 | None => 0 end)
          | _, [VInt start] =>
              if start <? 1 then SAny
              else SInt (match find_pre nc (skip_z (start - 1) hc) with Some pre => zlen pre + start | None => 0 end)
          | _, _ => SAny
          end
      | _, _ => SAny
      end
  | SRepeat, [a; VInt n] =>
      match cps_of a with
      | Some cs => if n <=? 0 then SText [] else if n * zlen cs <=? max_model then SText (concat (repeat cs (Z.to_nat n))) else SAny
      | None => SAny end
  | SSpace, [VInt n] => if n <=? 0 then SText [] else if n <=? max_model then SText (repeat 32 (Z.to_nat n)) else SAny
  | STrim, [a] | SLtrim, [a] | SRtrim, [a] =>
      match cps_of a with
      | Some cs =>
          let tr := fun p => match f with STrim => trim_by p cs | SLtrim => trim_start_by p cs | _ => trim_end_by p cs end in
          (* SQL trims spaces, the module documents "whitespace": judged where both readings agree *)
          if list_eqb (tr is_space) (tr is_ws) then SText (tr is_space) else SAny
      | None => SAny end
  | SConcat, _ =>
      (fix go (l : list val) (acc : list Z) : sres :=
         match l with
         | [] => SText acc
         | v :: t => match cps_of v with Some cs => go t (acc ++ cs) | None => SAny end
         end) args []
  | SStrcmp, [a; b] => match cps_of a, cps_of b with Some x, Some y => SInt (cmp_lex x y) | _, _ => SAny end
  | SInsert, [a; VInt pos; VInt len; n] =>
      match cps_of a, cps_of n with
      | Some cs, Some nc =>
          if (pos <? 1) || (zlen cs + 1 <? pos) then SText cs
          else if (pos =? zlen cs + 1) || (len <? 0) then SAny               (* dialects differ *)
          else SText (take_z (pos - 1) cs ++ nc ++ skip_z (Z.min (pos - 1 + len) (zlen cs)) cs)
      | _, _ => SAny
      end
  | _, _ => SAny
  end.

Definition str_obs_ok (x : sres) (o : out) : bool :=
  match o with
  | OPanic | OFuel | OUnmod | ONone | OErr => false
  | OVal v =>
      match x, v with
      | SText cs, VText b => zlist_eqb (encode_utf8 cs) b
      | SInt z, VInt n => z =? n
      | SNull, VNull => true
      | SAny, _ => true
      | _, _ => false
      end
  end.

(* no finding class is left for the string functions: the defects recorded as F-C20-4 .. F-C20-7
   (INSTR byte offset, SUBSTR(i64::MIN) panic, LPAD / RPAD negative length, NULL optional argument) are repaired *)
