(* C14: the three-valued evaluator of the implementation (eval_tv / eval_value, modelled by one
   traversal evalx) computes the reference semantics: for every well-formed expression and
   every row of plain cells, wherever the reference defines a value. *)
From Coq Require Import ZArith List Bool Lia.
From TV Require Import Model.SqlSpec Model.PredImpl Model.PredClass
  Proof.SqlSpecLaws Proof.PredBase Proof.PredLike.
Import ListNotations.
Open Scope Z_scope.

Lemma plain_nth : forall r i v, plain_row r = true -> nth_error r i = Some v -> plain_value v = true.
Proof.
  induction r as [|x r IH]; intros [|i] v Hp Hn; cbn in *; try discriminate.
  - injection Hn as <-. now apply andb_prop in Hp as [Hp _].
  - apply andb_prop in Hp as [_ Hp]. eapply IH; eassumption.
Qed.

(* ------------------------------------------------------------------ IN lists *)
Definition any_spec (x : value) (r : row) : list expr -> option tv :=
  fix any (l : list expr) : option tv :=
    match l with
    | [] => Some FF
    | i :: l' =>
        match eval i r with
        | Some y => opt_tv_or (cmp3 CEq x y) (any l')
        | None => None
        end
    end.
Definition go_impl (x : ivalue) (neg : bool) (r : row) : list expr -> bool -> res (option bool) :=
  fix go (l : list expr) (unknown : bool) : res (option bool) :=
    match l with
    | [] => Ok (if unknown then None else Some neg)
    | i :: l' =>
        bindr (evalx i r) (fun xi =>
          match as_val xi with
          | None | Some INull => go l' true
          | Some y => if values_equal x y then Ok (Some (negb neg)) else go l' unknown
          end)
    end.

Lemma eval_in_unfold : forall neg a l r,
  eval (EIn neg a l) r =
  match eval a r with
  | Some x => ret_tv (opt_tv_neg neg (any_spec x r l))
  | None => None
  end.
Proof. reflexivity. Qed.
Lemma evalx_in_unfold : forall neg a l r,
  evalx (EIn neg a l) r =
  bindr (evalx a r) (fun xa =>
    match as_val xa with
    | None | Some INull => Ok (XT None)
    | Some x => bindr (go_impl x neg r l false) (fun t => Ok (XT t))
    end).
Proof. reflexivity. Qed.
Lemma any_spec_cons : forall x r i l,
  any_spec x r (i :: l) =
  match eval i r with Some y => opt_tv_or (cmp3 CEq x y) (any_spec x r l) | None => None end.
Proof. reflexivity. Qed.
Lemma go_impl_cons : forall x neg r i l unknown,
  go_impl x neg r (i :: l) unknown =
  bindr (evalx i r) (fun xi =>
    match as_val xi with
    | None | Some INull => go_impl x neg r l true
    | Some y => if values_equal x y then Ok (Some (negb neg)) else go_impl x neg r l unknown
    end).
Proof. reflexivity. Qed.

Lemma any_spec_null : forall r l tany, any_spec VNull r l = Some tany -> l <> [] -> tany = UU.
Proof.
  intros r. induction l as [|i l IH]; intros tany H Hne; [congruence|].
  rewrite any_spec_cons in H. destruct (eval i r) as [y|]; [|discriminate]. rewrite cmp3_null_l in H.
  destruct (any_spec VNull r l) as [t2|] eqn:E; [|discriminate]. cbn in H. injection H as <-.
  destruct l as [|j l'].
  - cbn in E. injection E as <-. reflexivity.
  - rewrite (IH t2 eq_refl ltac:(discriminate)). reflexivity.
Qed.

Definition in_result (neg unknown : bool) (tany : tv) : option bool :=
  match tany with
  | TT => Some (negb neg)
  | UU => None
  | FF => if unknown then None else Some neg
  end.

Lemma go_correct : forall x r neg l,
  x <> VNull ->
  Forall (fun i => forall v, eval i r = Some v -> exists xi, evalx i r = Ok xi /\ Rx v xi) l ->
  forall unknown tany, any_spec x r l = Some tany ->
  go_impl (inj x) neg r l unknown = Ok (in_result neg unknown tany).
Proof.
  intros x r neg l Hx HF. induction HF as [|i l Hi HF IH]; intros unknown tany Ha.
  - cbn in Ha. injection Ha as <-. reflexivity.
  - rewrite any_spec_cons in Ha.
    destruct (eval i r) as [y|] eqn:Ei; [|discriminate].
    destruct (cmp3 CEq x y) as [t1|] eqn:Ec; [|discriminate].
    destruct (any_spec x r l) as [t2|] eqn:Ea; [|discriminate].
    cbn [opt_tv_or] in Ha. injection Ha as <-.
    destruct (Hi y eq_refl) as (xi & Vi & Ri). apply Rx_as_val in Ri.
    rewrite go_impl_cons, Vi. cbn [bindr].
    destruct (value_eq_null_dec y) as [->|Hy].
    + rewrite (cmp3_null_r' _ _ _ Ec).
      assert (G : match as_val xi with
                  | None | Some INull => go_impl (inj x) neg r l true
                  | Some y0 => if values_equal (inj x) y0 then Ok (Some (negb neg)) else go_impl (inj x) neg r l unknown
                  end = go_impl (inj x) neg r l true)
        by (destruct Ri as [-> | ->]; reflexivity).
      rewrite G, (IH true t2 eq_refl). now destruct t2.
    + apply (Rv_nonnull _ _ Hy) in Ri. rewrite Ri.
      destruct (cmp3_nonnull _ _ _ _ Ec Hx Hy) as (c & Hv & ->).
      pose proof (values_equal_spec _ _ _ Hv) as Hve.
      assert (G : match Some (inj y) with
                  | None | Some INull => go_impl (inj x) neg r l true
                  | Some y0 => if values_equal (inj x) y0 then Ok (Some (negb neg)) else go_impl (inj x) neg r l unknown
                  end = if cmp_holds CEq c then Ok (Some (negb neg)) else go_impl (inj x) neg r l unknown).
      { rewrite <- Hve. destruct y; try congruence; reflexivity. }
      rewrite G. destruct (cmp_holds CEq c); cbn [tv_of_bool].
      * now destruct t2.
      * rewrite (IH unknown t2 eq_refl). now destruct t2.
Qed.

(* ------------------------------------------------------------------ IS NULL *)
Definition x_is_null (x : xval) : bool :=
  match x with
  | XT t => match t with None => true | Some _ => false end
  | XV o => match o with Some INull | None => true | Some _ => false end
  end.
Lemma x_is_null_correct : forall v x, Rx v x -> x_is_null x = match v with VNull => true | _ => false end.
Proof.
  intros v [[b|]|o] H; cbn in *; subst; try reflexivity.
  destruct v; cbn in H; try (subst o; reflexivity). destruct H as [-> | ->]; reflexivity.
Qed.

(* ------------------------------------------------------------------ the theorem *)
Definition good (e : expr) (v : value) (x : xval) : Prop := Rx v x /\ True.

Ltac done_xt := split; [|intros HH; cbn in HH; try discriminate; match type of HH with as_val (XT ?t) = None => destruct t as [[]|]; discriminate end].

Lemma as_val_xt : forall t, as_val (XT t) <> None.
Proof. intros [[]|]; discriminate. Qed.
Lemma good_xt : forall e t, good e (value_of_tv t) (XT (opt_of_tv t)).
Proof. intros e t. split; [apply Rx_of_tv|exact I]. Qed.

Theorem evalx_correct : forall e r v,
  wf_expr e = true -> plain_row r = true -> eval e r = Some v ->
  exists x, evalx e r = Ok x /\ good e v x.
Proof.
  induction e as [i|lv|op a b IHa IHb|op a b IHa IHb|a b IHa IHb|a b IHa IHb|a IHa|neg a l IHa IHl|neg a lo hi IHa IHlo IHhi|neg a p IHa IHp|neg a IHa] using expr_ind';
    intros r v Hw Hp He; cbn [wf_expr] in Hw.
  - (* column *)
    cbn [eval] in He. cbn [evalx]. rewrite He. pose proof (plain_nth r i v Hp He) as Hv.
    destruct v; cbn in Hv; try discriminate; cbn; eexists; (split; [reflexivity|]); split; cbn; auto.
  - (* literal *)
    cbn [eval] in He. injection He as <-. cbn [evalx].
    destruct lv as [|z|b|s|b]; cbn [lit_value]; try rewrite Hw; cbn [bindr];
      eexists; (split; [reflexivity|]); split; cbn; auto.
  - (* arithmetic *)
    apply andb_prop in Hw as [W1 W2].
    cbn [eval] in He.
    destruct (eval a r) as [x|] eqn:Ea; [|discriminate].
    destruct (eval b r) as [y|] eqn:Eb; [|discriminate].
    destruct (IHa r x ltac:(assumption) ltac:(assumption) ltac:(assumption)) as (xa & Va & Ra & _).
    destruct (IHb r y ltac:(assumption) ltac:(assumption) ltac:(assumption)) as (xb & Vb & Rb & _).
    apply Rx_as_val in Ra. apply Rx_as_val in Rb.
    cbn [evalx]. rewrite Va. cbn [bindr].
    destruct x, y; cbn [arith_values] in He; try discriminate; cbn [Rv inj] in Ra, Rb.
    + injection He as <-. destruct Ra as [-> | ->].
      * rewrite Vb. cbn [bindr]. destruct Rb as [-> | ->]; cbn; eexists; (split; [reflexivity|]); split; cbn; auto.
      * eexists; (split; [reflexivity|]); split; cbn; auto.
    + injection He as <-. destruct Ra as [-> | ->].
      * rewrite Vb. cbn [bindr]. rewrite Rb. cbn. eexists; (split; [reflexivity|]); split; cbn; auto.
      * eexists; (split; [reflexivity|]); split; cbn; auto.
    + injection He as <-. rewrite Ra, Vb. cbn [bindr].
      destruct Rb as [-> | ->]; cbn; eexists; (split; [reflexivity|]); split; cbn; auto.
    + rewrite Ra, Vb. cbn [bindr]. rewrite Rb. cbn [arith_i].
      destruct (i64_ok (arith_z op z z0)); [|discriminate]. injection He as <-. cbn [bindr].
      eexists; (split; [reflexivity|]); split; cbn; auto.
  - (* comparison *)
    apply andb_prop in Hw as [W1 W2].
    cbn [eval] in He.
    destruct (eval a r) as [x|] eqn:Ea; [|discriminate].
    destruct (eval b r) as [y|] eqn:Eb; [|discriminate].
    destruct (cmp3 op x y) as [t|] eqn:Ec; [|discriminate]. cbn in He. injection He as <-.
    destruct (IHa r x ltac:(assumption) ltac:(assumption) ltac:(assumption)) as (xa & Va & Ra & _).
    destruct (IHb r y ltac:(assumption) ltac:(assumption) ltac:(assumption)) as (xb & Vb & Rb & _).
    apply Rx_as_val in Ra. apply Rx_as_val in Rb.
    exists (XT (cmp_tv (as_val xa) (as_val xb) op)). split.
    + cbn [evalx]. rewrite Va. cbn [bindr]. destruct (as_val xa); [|reflexivity].
      rewrite Vb. cbn [bindr]. destruct (as_val xb); [|reflexivity].
      cbn [cmp_tv]. now destruct (is_inull _ || is_inull _).
    + rewrite (cmp_tv_correct _ _ _ _ _ _ Ec Ra Rb). apply good_xt.
  - (* AND *)
    apply andb_prop in Hw as [W1 W2].
    cbn [eval] in He.
    destruct (eval a r) as [va|] eqn:Ea; cbn in He; [|discriminate].
    destruct (tv_of_value va) as [ta|] eqn:Ta; cbn in He; [|discriminate].
    destruct (eval b r) as [vb|] eqn:Eb; cbn in He; [|discriminate].
    destruct (tv_of_value vb) as [tb|] eqn:Tb; cbn in He; [|discriminate].
    injection He as <-.
    destruct (IHa r va ltac:(assumption) ltac:(assumption) ltac:(assumption)) as (xa & Va & Ra & _).
    destruct (IHb r vb ltac:(assumption) ltac:(assumption) ltac:(assumption)) as (xb & Vb & Rb & _).
    exists (XT (opt_of_tv (tv_and ta tb))). split; [|apply good_xt].
    cbn [evalx]. rewrite Va. cbn [bindr]. rewrite (Rx_as_tv _ _ _ Ra Ta).
    destruct ta; cbn [opt_of_tv]; try reflexivity;
      rewrite Vb; cbn [bindr]; rewrite (Rx_as_tv _ _ _ Rb Tb); destruct tb; reflexivity.
  - (* OR *)
    apply andb_prop in Hw as [W1 W2].
    cbn [eval] in He.
    destruct (eval a r) as [va|] eqn:Ea; cbn in He; [|discriminate].
    destruct (tv_of_value va) as [ta|] eqn:Ta; cbn in He; [|discriminate].
    destruct (eval b r) as [vb|] eqn:Eb; cbn in He; [|discriminate].
    destruct (tv_of_value vb) as [tb|] eqn:Tb; cbn in He; [|discriminate].
    injection He as <-.
    destruct (IHa r va ltac:(assumption) ltac:(assumption) ltac:(assumption)) as (xa & Va & Ra & _).
    destruct (IHb r vb ltac:(assumption) ltac:(assumption) ltac:(assumption)) as (xb & Vb & Rb & _).
    exists (XT (opt_of_tv (tv_or ta tb))). split; [|apply good_xt].
    cbn [evalx]. rewrite Va. cbn [bindr]. rewrite (Rx_as_tv _ _ _ Ra Ta).
    destruct ta; cbn [opt_of_tv]; try reflexivity;
      rewrite Vb; cbn [bindr]; rewrite (Rx_as_tv _ _ _ Rb Tb); destruct tb; reflexivity.
  - (* NOT *)
    cbn [eval] in He.
    destruct (eval a r) as [va|] eqn:Ea; cbn in He; [|discriminate].
    destruct (tv_of_value va) as [ta|] eqn:Ta; cbn in He; [|discriminate].
    injection He as <-.
    destruct (IHa r va Hw Hp Ea) as (xa & Va & Ra & _).
    exists (XT (opt_of_tv (tv_not ta))). split; [|apply good_xt].
    cbn [evalx]. rewrite Va. cbn [bindr]. rewrite (Rx_as_tv _ _ _ Ra Ta). now rewrite not3_spec.
  - (* IN *)
    apply andb_prop in Hw as [Hw W3]. apply andb_prop in Hw as [W1 W2].
    rewrite eval_in_unfold in He.
    destruct (eval a r) as [x|] eqn:Ea; [|discriminate].
    destruct (any_spec x r l) as [tany|] eqn:Eany; [|discriminate].
    cbn in He. injection He as <-.
    destruct (IHa r x W1 Hp Ea) as (xa & Va & Ra & _). apply Rx_as_val in Ra.
    assert (Hne : l <> []) by (intros ->; cbn in W2; discriminate W2).
    assert (HF : Forall (fun i => forall v, eval i r = Some v -> exists xi, evalx i r = Ok xi /\ Rx v xi) l).
    { clear - IHl W3 Hp. induction IHl as [|i l Hi Hl IH]; constructor.
      - cbn [forallb] in W3. apply andb_prop in W3 as [Wi _].
        intros v Hv. destruct (Hi r v Wi Hp Hv) as (xi & Vi & Ri & _). eauto.
      - cbn [forallb] in W3. apply andb_prop in W3 as [_ Wl]. now apply IH. }
    rewrite evalx_in_unfold, Va. cbn [bindr].
    destruct (value_eq_null_dec x) as [->|Hx].
    + rewrite (any_spec_null r l tany Eany Hne).
      exists (XT None). split.
      * destruct Ra as [-> | ->]; reflexivity.
      * replace (value_of_tv (if neg then tv_not UU else UU)) with (value_of_tv UU) by (now destruct neg).
        apply (good_xt _ UU).
    + apply (Rv_nonnull _ _ Hx) in Ra. rewrite Ra.
      exists (XT (in_result neg false tany)). split.
      * pose proof (go_correct x r neg l Hx HF false tany Eany) as G.
        destruct x; try congruence; cbn [inj ib] in *; rewrite G; reflexivity.
      * assert (E : in_result neg false tany = opt_of_tv (if neg then tv_not tany else tany))
          by (destruct neg, tany; reflexivity).
        rewrite E. apply good_xt.
  - (* BETWEEN *)
    apply andb_prop in Hw as [Hw W3]. apply andb_prop in Hw as [W1 W2].
    cbn [eval] in He.
    destruct (eval a r) as [x|] eqn:Ea; [|discriminate].
    destruct (eval lo r) as [vl|] eqn:El; [|discriminate].
    destruct (eval hi r) as [vh|] eqn:Eh; [|discriminate].
    destruct (cmp3 CGe x vl) as [t1|] eqn:E1; [|discriminate].
    destruct (cmp3 CLe x vh) as [t2|] eqn:E2; [|discriminate].
    cbn in He. injection He as <-.
    destruct (IHa r x W1 Hp Ea) as (xa & Va & Ra & _).
    destruct (IHlo r vl W2 Hp El) as (xl & Vl & Rl & _).
    destruct (IHhi r vh W3 Hp Eh) as (xh & Vh & Rh & _).
    apply Rx_as_val, Rv_or_null in Ra. apply Rx_as_val, Rv_or_null in Rl. apply Rx_as_val, Rv_or_null in Rh.
    cbn [evalx]. rewrite Va, Vl, Vh. cbn [bindr]. cbv zeta.
    eexists. split; [reflexivity|].
    rewrite (between_side_correct CGe Lt x vl t1 _ _ (or_introl (conj eq_refl eq_refl)) E1 Ra Rl).
    rewrite (between_side_correct CLe Gt x vh t2 _ _ (or_intror (conj eq_refl eq_refl)) E2 Ra Rh).
    rewrite and3_spec, neg3_spec. apply good_xt.
  - (* LIKE *)
    apply andb_prop in Hw as [W1 W2].
    cbn [eval] in He.
    destruct (eval a r) as [x|] eqn:Ea; [|discriminate].
    destruct (eval p r) as [q|] eqn:Ep; [|discriminate].
    destruct (like3 neg x q) as [t|] eqn:El; [|discriminate]. cbn in He. injection He as <-.
    destruct (IHa r x ltac:(assumption) ltac:(assumption) ltac:(assumption)) as (xa & Va & Ra & _).
    destruct (IHp r q ltac:(assumption) ltac:(assumption) ltac:(assumption)) as (xp & Vp & Rp & _).
    apply Rx_as_val in Ra. apply Rx_as_val in Rp.
    cbn [evalx]. rewrite Va. cbn [bindr].
    destruct x as [|zx|fx|sx|bx]; cbn [like3] in El; try discriminate.
    + (* text NULL *)
      assert (t = UU) by (destruct q; congruence). subst t.
      exists (XT None). split; [|apply (good_xt _ UU)].
      destruct Ra as [-> | ->]; [|reflexivity].
      rewrite Vp. cbn [bindr]. destruct (as_val xp); reflexivity.
    + cbn [Rv inj] in Ra. rewrite Ra, Vp. cbn [bindr].
      destruct q as [|zq|fq|sq|bq]; try discriminate.
      * injection El as <-. exists (XT None). split; [|apply (good_xt _ UU)].
        destruct Rp as [-> | ->]; reflexivity.
      * cbn [Rv inj] in Rp. rewrite Rp.
        destruct (is_ascii sx && is_ascii sq); [|discriminate]. injection El as <-.
        rewrite (like_impl_correct sx sq).
        eexists. split; [reflexivity|].
        replace (Some (xorb neg (like_spec sq sx))) with (opt_of_tv (tv_of_bool (xorb neg (like_spec sq sx)))) by apply opt_of_bool.
        apply good_xt.
  - (* IS NULL *)
    cbn [eval] in He.
    destruct (eval a r) as [va|] eqn:Ea; [|discriminate].
    destruct (IHa r va Hw Hp Ea) as (xa & Va & Ra & _).
    exists (XT (Some (xorb neg (x_is_null xa)))). split.
    + cbn [evalx]. rewrite Va. reflexivity.
    + rewrite (x_is_null_correct _ _ Ra). split; [|exact I].
      destruct va; injection He as <-; destruct neg; reflexivity.
Qed.

(* ------------------------------------------------------------------ corollaries *)
Lemma tv_value_of : forall t, tv_of_value (value_of_tv t) = Some t.
Proof. now intros []. Qed.

(* FilterExec: a row passes iff the predicate is TRUE *)
Theorem eval_expr_correct : forall e r t,
  wf_expr e = true -> plain_row r = true -> sem3 e r = Some t ->
  eval_expr e r = Ok (tv_is_true t).
Proof.
  intros e r t Hw Hp Hs. unfold sem3 in Hs.
  destruct (eval e r) as [v|] eqn:Ee; [|discriminate]. cbn in Hs.
  destruct (evalx_correct e r v Hw Hp Ee) as (x & Vx & Rx_ & _).
  unfold eval_expr, eval_tv. rewrite Vx. cbn [bindr]. rewrite (Rx_as_tv _ _ _ Rx_ Hs). now destruct t.
Qed.

(* evaluate_to_value: TRUE / FALSE / NULL as the reference says *)
Theorem eval_value_correct : forall e r t,
  wf_expr e = true -> plain_row r = true -> sem3 e r = Some t ->
  exists o, eval_value e r = Ok o /\ code_of o = code_of_tv (Some t).
Proof.
  intros e r t Hw Hp Hs. unfold sem3 in Hs.
  destruct (eval e r) as [v|] eqn:Ee; [|discriminate]. cbn in Hs.
  destruct (evalx_correct e r v Hw Hp Ee) as (x & Vx & Rx_ & _).
  unfold eval_value. rewrite Vx. cbn [bindr]. eexists. split; [reflexivity|].
  apply Rx_as_val in Rx_. rewrite (value_of_tv_inv _ _ Hs) in Rx_.
  destruct t; cbn in Rx_.
  - now rewrite Rx_.
  - now rewrite Rx_.
  - destruct Rx_ as [-> | ->]; reflexivity.
Qed.
