(* C09 proofs, part 7: DELETE.  What tombstoning the selected rows and removing their key values
   from the unique indexes does to the visible table and to the exactness of the indexes; then the
   statement itself: outside the recorded classes the implementation model refuses a DELETE on the
   parent iff a RESTRICT / NO ACTION child would lose its parent, cascades exactly the reference's
   child rows, and keeps the invariant. *)
From Coq Require Import ZArith List Bool Lia ZifyBool Arith.
From TV Require Import Model.SqlSpec Model.CheckStr Model.ConstrSpec Model.ConstrImpl Model.ConstrClass
                       Proof.ConstrBase Proof.ConstrIns Proof.ConstrSel.
Import ListNotations.
Open Scope Z_scope.

(* ---------------------------------------------------------------- membership in the selection *)
Lemma in_sel_char ts w x :
  NoDup (map e_id (ents ts)) -> In x (ents ts) ->
  in_sel (live_sel ts w) x = live x && wpass w (e_row x).
Proof.
  intros Hnd Hx. unfold in_sel, live_sel.
  destruct (live x && wpass w (e_row x)) eqn:P.
  - apply existsb_exists. exists x. split; [apply filter_In; split; assumption|apply Z.eqb_refl].
  - destruct (existsb (fun s => e_id s =? e_id x) (filter (fun e => live e && wpass w (e_row e)) (ents ts))) eqn:E; [|reflexivity].
    apply existsb_exists in E. destruct E as [s [Hs Hid]]. apply filter_In in Hs. destruct Hs as [Hs Ps].
    apply Z.eqb_eq in Hid. pose proof (NoDup_id_eq _ _ _ Hnd Hs Hx Hid) as ->. congruence.
Qed.

Lemma existsb_ext_in {A} (f g : A -> bool) l : (forall x, In x l -> f x = g x) -> existsb f l = existsb g l.
Proof.
  induction l as [|x l IH]; intros H; [reflexivity|]. cbn [existsb].
  rewrite (H x (or_introl eq_refl)), IH; [reflexivity|]. intros y Hy. apply H. right. exact Hy.
Qed.

Lemma existsb_map' {A B} (f : B -> bool) (g : A -> B) l : existsb f (map g l) = existsb (fun x => f (g x)) l.
Proof. induction l as [|x l IH]; [reflexivity|]. cbn [map existsb]. rewrite IH. reflexivity. Qed.

(* ---------------------------------------------------------------- the visible table after tombstoning *)
Lemma visible_tomb_gen ts w :
  NoDup (map e_id (ents ts)) ->
  forall l, (forall x, In x l -> In x (ents ts)) ->
    map e_row (filter live (tombstone (live_sel ts w) l)) =
    filter (fun r => negb (wpass w r)) (map e_row (filter live l)).
Proof.
  intros Hnd. induction l as [|x l IH]; intros Hsub; [reflexivity|].
  cbn [tombstone map]. rewrite (in_sel_char ts w x Hnd (Hsub x (or_introl eq_refl))).
  assert (IHl := IH (fun y Hy => Hsub y (or_intror Hy))). unfold tombstone in IHl.
  destruct (live x) eqn:L; cbn [andb].
  - destruct (wpass w (e_row x)) eqn:P.
    + cbn [filter live e_del negb]. rewrite L. cbn [map filter]. rewrite P. cbn [negb]. exact IHl.
    + cbn [filter]. rewrite L. cbn [map filter]. rewrite P. cbn [negb]. f_equal. exact IHl.
  - cbn [filter]. rewrite L. exact IHl.
Qed.

Lemma visible_tomb ts w ixs :
  NoDup (map e_id (ents ts)) ->
  visible (mkT (tombstone (live_sel ts w) (ents ts)) ixs) = filter (fun r => negb (wpass w r)) (visible ts).
Proof. intros Hnd. unfold visible. cbn [ents]. apply visible_tomb_gen; [exact Hnd|auto]. Qed.

Lemma rows_of_sel ts w : map e_row (live_sel ts w) = filter (wpass w) (visible ts).
Proof.
  unfold live_sel, visible. induction (ents ts) as [|x l IH]; [reflexivity|]. cbn [filter].
  destruct (live x) eqn:L; cbn [andb map filter].
  - destruct (wpass w (e_row x)); cbn [map]; rewrite IH; reflexivity.
  - exact IH.
Qed.

(* ---------------------------------------------------------------- the indexes after removal by value *)
Lemma idx_mem_del v w ix : idx_mem v (idx_del w ix) = idx_mem v ix && negb (value_eqb w v).
Proof.
  unfold idx_mem, idx_find, idx_del. induction ix as [|p ix IH]; [reflexivity|]. cbn [filter find].
  destruct (value_eqb (fst p) w) eqn:Ew; cbn [negb].
  - apply value_eqb_eq in Ew. destruct (value_eqb (fst p) v) eqn:Ev.
    + apply value_eqb_eq in Ev. rewrite <- Ew, Ev, value_eqb_refl. cbn [negb]. rewrite andb_false_r.
      rewrite Ew, <- Ev in *. clear Ev.
      rewrite IH. rewrite value_eqb_refl. cbn [negb]. apply andb_false_r.
    + exact IH.
  - cbn [find]. destruct (value_eqb (fst p) v) eqn:Ev.
    + apply value_eqb_eq in Ev. rewrite <- Ev. rewrite value_eqb_sym, Ew. reflexivity.
    + exact IH.
Qed.

Definition del_fold (i : nat) (sel : list entry) (ix : index) : index :=
  fold_left (fun a e => let v := col_val i (e_row e) in if is_null v then a else idx_del v a) sel ix.

Lemma is_null_eq v : is_null v = true -> v = VNull.
Proof. destruct v; try discriminate. reflexivity. Qed.

Lemma idx_mem_del_fold v i : is_null v = false -> forall sel ix,
  idx_mem v (del_fold i sel ix) = idx_mem v ix && negb (existsb (fun e => value_eqb (col_val i (e_row e)) v) sel).
Proof.
  intros Nv. unfold del_fold. induction sel as [|e sel IH]; intros ix.
  - cbn [fold_left existsb negb]. rewrite andb_true_r. reflexivity.
  - cbn [fold_left existsb]. rewrite IH. destruct (is_null (col_val i (e_row e))) eqn:N.
    + apply is_null_eq in N. rewrite N. destruct v; try discriminate; reflexivity.
    + rewrite idx_mem_del. rewrite negb_orb, andb_assoc. reflexivity.
Qed.

Lemma idx_del_length : forall ixs ds i sel, length (idx_del_from ixs ds i sel) = length ixs.
Proof.
  induction ixs as [|ix ixs IH]; intros ds i sel; [reflexivity|]. destruct ds as [|d ds]; [reflexivity|].
  cbn [idx_del_from length]. rewrite IH. reflexivity.
Qed.
Lemma idx_del_nth : forall ixs ds i0 sel i d,
  nth_error ds i = Some d -> (i < length ixs)%nat ->
  nth i (idx_del_from ixs ds i0 sel) [] =
  if is_key d then del_fold (i0 + i) sel (nth i ixs []) else nth i ixs [].
Proof.
  induction ixs as [|ix ixs IH]; intros ds i0 sel i d Hd Hi; [cbn [length] in Hi; lia|].
  destruct ds as [|d0 ds]; [destruct i; discriminate|]. cbn [idx_del_from]. destruct i as [|i].
  - cbn [nth_error] in Hd. injection Hd as ->. cbn [nth]. rewrite Nat.add_0_r. reflexivity.
  - cbn [nth_error] in Hd. cbn [nth]. rewrite (IH ds (S i0) sel i d Hd) by (cbn [length] in Hi; lia).
    replace (S i0 + i)%nat with (i0 + S i)%nat by lia. reflexivity.
Qed.
Lemma idx_del_sub : forall ixs ds i0 sel ix v k,
  In ix (idx_del_from ixs ds i0 sel) -> In (v, k) ix -> exists ix', In ix' ixs /\ In (v, k) ix'.
Proof.
  induction ixs as [|ix0 ixs IH]; intros ds i0 sel ix v k Hin Hp; [destruct Hin|].
  destruct ds as [|d ds]; [exists ix; split; assumption|]. cbn [idx_del_from] in Hin. destruct Hin as [<-|Hin].
  - exists ix0. split; [left; reflexivity|]. destruct (is_key d); [|exact Hp].
    revert Hp. generalize ix0. induction sel as [|e sel IHs]; intros ixa Hp; [exact Hp|].
    cbn [fold_left] in Hp. specialize (IHs _ Hp). destruct (is_null (col_val i0 (e_row e))); [exact IHs|].
    unfold idx_del in IHs. apply filter_In in IHs. tauto.
  - destruct (IH ds (S i0) sel ix v k Hin Hp) as [ix' [H1 H2]]. exists ix'. split; [right; exact H1|exact H2].
Qed.

(* the live rows after tombstoning: a deleted value is gone (it was unique), every other stays *)
Lemma live_has_tomb ts w ixs i v :
  NoDup (map e_id (ents ts)) -> nodupv (colvals i (visible ts)) = true -> is_null v = false ->
  live_has (mkT (tombstone (live_sel ts w) (ents ts)) ixs) i v =
  live_has ts i v && negb (existsb (fun e => value_eqb (col_val i (e_row e)) v) (live_sel ts w)).
Proof.
  intros Hnd Hu Nv. unfold live_has. cbn [ents]. unfold tombstone. rewrite existsb_map'.
  rewrite (existsb_ext_in _ (fun e => live e && negb (in_sel (live_sel ts w) e) && value_eqb (col_val i (e_row e)) v)).
  - destruct (existsb (fun e => value_eqb (col_val i (e_row e)) v) (live_sel ts w)) eqn:E; cbn [negb].
    + rewrite andb_false_r. apply existsb_exists in E. destruct E as [s [Hs Vs]].
      unfold live_sel in Hs. apply filter_In in Hs. destruct Hs as [Hs Ps]. apply andb_true_iff in Ps. destruct Ps as [Ls Ws].
      pose proof (live_filter_unique (ents ts) i v s Hu Hnd Hs Ls Vs Nv) as HF.
      destruct (existsb _ (ents ts)) eqn:X; [|reflexivity]. exfalso.
      apply existsb_exists in X. destruct X as [x [Hx Px]].
      apply andb_true_iff in Px. destruct Px as [Px Vx]. apply andb_true_iff in Px. destruct Px as [Lx Nx].
      assert (Hxf : In x (filter (fun y => live y && value_eqb (col_val i (e_row y)) v) (ents ts))).
      { apply filter_In. split; [exact Hx|]. rewrite Lx, Vx. reflexivity. }
      rewrite HF in Hxf. destruct Hxf as [<-|[]].
      rewrite (in_sel_char ts w s Hnd Hs), Ls, Ws in Nx. discriminate.
    + rewrite andb_true_r. apply existsb_ext_in. intros x Hx.
      destruct (live x && value_eqb (col_val i (e_row x)) v) eqn:P.
      * apply andb_true_iff in P. destruct P as [Lx Vx]. rewrite Lx, Vx.
        rewrite (in_sel_char ts w x Hnd Hx), Lx. cbn [andb].
        destruct (wpass w (e_row x)) eqn:W; [|reflexivity]. exfalso.
        assert (Hc : existsb (fun e => value_eqb (col_val i (e_row e)) v) (live_sel ts w) = true).
        { apply existsb_exists. exists x. split; [|exact Vx]. unfold live_sel. apply filter_In. split; [exact Hx|]. rewrite Lx, W. reflexivity. }
        congruence.
      * destruct (live x); cbn [andb] in *; [rewrite P, andb_false_r; reflexivity|reflexivity].
  - intros x _. destruct (in_sel (live_sel ts w) x); cbn [live e_del e_row negb andb]; [rewrite andb_false_r; reflexivity|].
    rewrite andb_true_r. reflexivity.
Qed.

(* ---------------------------------------------------------------- the table after DELETE *)
Lemma tomb_ids sel es : map e_id (tombstone sel es) = map e_id es.
Proof.
  unfold tombstone. rewrite map_map. apply map_ext. intros e. destruct (in_sel sel e); reflexivity.
Qed.
Lemma tomb_in sel es e : In e (tombstone sel es) -> exists x, In x es /\ e_id x = e_id e /\ e_row x = e_row e.
Proof.
  unfold tombstone. intros H. apply in_map_iff in H. destruct H as [x [Hx Hin]]. exists x. split; [exact Hin|].
  destruct (in_sel sel x); subst e; split; reflexivity.
Qed.

Lemma tinv_del ds ts next w :
  tinv ds ts next -> uniq_ok ds (visible ts) = true ->
  tinv ds (mkT (tombstone (live_sel ts w) (ents ts)) (idx_del_from (idxs ts) ds 0 (live_sel ts w))) next.
Proof.
  intros [Hex Hnn [Hnd Hid] [Hrf Hli]] Hu. constructor.
  - intros i d Hd K v Nv.
    assert (Hi : (i < length ds)%nat) by (apply nth_error_Some; rewrite Hd; discriminate).
    unfold get_idx. cbn [idxs]. rewrite (idx_del_nth _ _ 0 _ i d Hd) by lia. rewrite K. cbn [Nat.add].
    rewrite (idx_mem_del_fold v i Nv). fold (get_idx ts i). rewrite (Hex i d Hd K v Nv).
    symmetry. apply live_has_tomb; [exact Hnd| |exact Nv].
    unfold uniq_ok in Hu. exact (uniq_from_nth ds 0 (visible ts) i d Hu Hd K).
  - intros ix v k Hin Hp. cbn [idxs] in Hin. destruct (idx_del_sub _ _ _ _ _ _ _ Hin Hp) as [ix' [H1 H2]].
    exact (Hnn ix' v k H1 H2).
  - unfold ids_ok. cbn [ents]. rewrite tomb_ids. split; [exact Hnd|].
    intros e He. destruct (tomb_in _ _ _ He) as [x [Hx [Hi _]]]. rewrite <- Hi. exact (Hid x Hx).
  - unfold rows_ok. cbn [ents idxs]. split.
    + intros e He. destruct (tomb_in _ _ _ He) as [x [Hx [_ Hr]]]. rewrite <- Hr. exact (Hrf x Hx).
    + rewrite idx_del_length. exact Hli.
Qed.

(* ---------------------------------------------------------------- validity of a filtered table *)
Lemma forallb_filter {A} (p q : A -> bool) l : forallb p l = true -> forallb p (filter q l) = true.
Proof.
  rewrite !forallb_forall. intros H x Hx. apply filter_In in Hx. apply H. tauto.
Qed.
Lemma vmem_filter v i (q : row -> bool) (t : table) :
  vmem v (colvals i (filter q t)) = true -> vmem v (colvals i t) = true.
Proof.
  unfold vmem, colvals. rewrite !existsb_exists. intros [x [Hx E]]. exists x. split; [|exact E].
  apply in_map_iff in Hx. destruct Hx as [r [Hr Hin]]. apply filter_In in Hin. apply in_map_iff. exists r. tauto.
Qed.
Lemma nodupv_filter i (q : row -> bool) (t : table) :
  nodupv (colvals i t) = true -> nodupv (colvals i (filter q t)) = true.
Proof.
  induction t as [|r t IH]; [reflexivity|]. cbn [colvals map nodupv filter]. intros H.
  apply andb_true_iff in H. destruct H as [H1 H2]. destruct (q r); [|exact (IH H2)].
  cbn [colvals map nodupv]. rewrite (IH H2), andb_true_r.
  destruct (is_null (col_val i r)); [reflexivity|]. cbn [orb] in *.
  destruct (vmem (col_val i r) (map (col_val i) (filter q t))) eqn:E; [|reflexivity].
  apply (vmem_filter _ i q t) in E. unfold colvals in E. rewrite E in H1. discriminate.
Qed.
Lemma uniq_from_filter ds (q : row -> bool) : forall i (t : table),
  uniq_from ds i t = true -> uniq_from ds i (filter q t) = true.
Proof.
  induction ds as [|d ds IH]; intros i t H; [reflexivity|]. cbn [uniq_from] in *.
  apply andb_true_iff in H. destruct H as [H1 H2]. rewrite (IH _ _ H2), andb_true_r.
  destruct (is_key d); [|reflexivity]. cbn [negb orb] in *. exact (nodupv_filter i q t H1).
Qed.

(* a unique column: a value is held by the kept rows iff it is held at all and not by the removed ones *)
Lemma vmem_kept i (q : row -> bool) (t : table) v :
  nodupv (colvals i t) = true -> is_null v = false ->
  vmem v (colvals i (filter (fun r => negb (q r)) t)) =
  vmem v (colvals i t) && negb (vmem v (colvals i (filter q t))).
Proof.
  intros Hu Nv. induction t as [|r t IH]; [reflexivity|].
  cbn [colvals map nodupv] in Hu. apply andb_true_iff in Hu. destruct Hu as [H1 H2].
  specialize (IH H2). cbn [filter]. destruct (q r) eqn:Q; cbn [negb colvals map vmem existsb].
  - fold (vmem v (map (col_val i) (filter (fun r0 => negb (q r0)) t))). fold (vmem v (map (col_val i) t)).
    fold (vmem v (map (col_val i) (filter q t))). unfold colvals in IH. rewrite IH.
    destruct (value_eqb v (col_val i r)) eqn:E; cbn [orb negb]; [|reflexivity].
    rewrite andb_false_r. apply value_eqb_eq in E. rewrite <- E in H1. rewrite Nv in H1. cbn [orb] in H1.
    apply negb_true_iff in H1. unfold colvals in H1. rewrite H1. reflexivity.
  - fold (vmem v (map (col_val i) (filter (fun r0 => negb (q r0)) t))). fold (vmem v (map (col_val i) t)).
    fold (vmem v (map (col_val i) (filter q t))). unfold colvals in IH. rewrite IH.
    destruct (value_eqb v (col_val i r)) eqn:E; cbn [orb]; [|reflexivity].
    apply value_eqb_eq in E. rewrite <- E in H1. rewrite Nv in H1. cbn [orb] in H1. apply negb_true_iff in H1.
    destruct (vmem v (map (col_val i) (filter q t))) eqn:X; [|rewrite andb_true_r; reflexivity].
    apply (vmem_filter v i q t) in X. unfold colvals in *. congruence.
Qed.
