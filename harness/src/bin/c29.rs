//! C29: B-tree pages stay structurally valid.  The histories of C28 are run again on the real BTree;
//! after EVERY operation each page whose bytes changed is decoded through the public page accessors and
//! printed, so that the verified checker (Coq, Model/BTreePages.v) judges the real pages after every step.
#[path = "btree_common/mod.rs"]
mod btree_common;
use btree_common::gen::*;
use btree_common::hist::*;
use tvh::*;

fn main() {
    let a = Args::parse();
    match a.mode.as_str() {
        "gen" => gen(&a),
        "search" => search(&a),
        _ => { eprintln!("c29: unknown mode"); std::process::exit(2); }
    }
}

fn gen(a: &Args) {
    let mut rng = Rng::new(a.seed);
    let mut w = CaseWriter::new(&a.out, "C29", "Corr.C28 Corr.C29", if a.thorough() { 4 } else { 3 });
    let mut pages = 0u64;
    let mut steps = 0u64;
    let mut emit = |w: &mut CaseWriter, ran: Ran| {
        let nontrivial = ran.pages > 2;
        pages += ran.pages_decoded;
        steps += ran.deltas.len() as u64;
        let kind = ran.hist.kind.clone();
        w.push(case_term29(&ran), ran_line(&ran), nontrivial, &kind);
    };
    if let Some(lines) = a.replay_lines() {
        for l in lines {
            match History::parse(&l) {
                Some(h) => { let ran = replay_t(&h, true); emit(&mut w, ran); }
                None => eprintln!("c29: cannot parse replay line: {}", &l[..l.len().min(80)]),
            }
        }
    } else {
        let (per_clean, per_directed, budget) = if a.thorough() { (40, 12, 300) } else { (4, 2, 120) };
        for kind in KINDS {
            let per_kind = if DIRECTED.contains(&kind) { per_directed } else { per_clean };
            for _ in 0..per_kind {
                let b = budget / 2 + rng.below(budget as u64 / 2) as usize;
                let ran = generate_t(&mut rng, kind, b, true);
                emit(&mut w, ran);
            }
        }
    }
    w.finish(&[("steps_checked".to_string(), steps.to_string()), ("pages_decoded".to_string(), pages.to_string())]);
}

/// Oracle only: a Rust transcription of the structural conditions on the decoded pages would duplicate the
/// verified checker; the search mode therefore looks for histories after which the ordered-map oracle is
/// violated or an operation fails (every structural defect found so far shows up that way) and reports them.
fn search(a: &Args) {
    let mut rng = Rng::new(a.seed ^ 0xC29C29);
    let mut out = String::new();
    let mut tried = 0u64;
    let mut fails = 0;
    let n = (a.budget / 400).clamp(50, 4000);
    for i in 0..n {
        let kind = KINDS[(i as usize) % KINDS.len()];
        let b = 300 + rng.below(500) as usize;
        let ran = generate(&mut rng, kind, b);
        tried += ran.obs.len() as u64;
        if let Some((i, msg)) = &ran.reject {
            if fails < 60 {
                fails += 1;
                let what = match &ran.hist.ops[*i] { Op::Fwd(_) | Op::Bwd(_) | Op::Seek(..) => "scan", Op::Get(_) => "get", Op::Upd(..) => "update", _ => "insert" };
                out.push_str(&format!("FAIL {} !{} {}\n", ran_line(&ran), what, msg.replace('\n', " ")));
            }
        }
    }
    out.push_str(&format!("tried={}\n", tried));
    std::fs::write(&a.out, out).expect("write search output");
}
