(* C37 group commit: the protocol as it is since /repo 77fabcc (variant fx = true: after
   submit_and_wait_role only the thread that was elected leader calls take_pending).  There is at
   most one leader at a time and the leader's own commit stays in the queue until the leader
   itself drains it, hence the ghost flag [stolen] is never set and written_before_ack /
   failure_reaches_members hold for every schedule. *)
From Coq Require Import ZArith List Bool Arith Lia.
From TV Require Import Lib.Interleave Model.GroupCommit Proof.GroupCommitStep Proof.GroupCommitSafe Proof.GroupCommitLive.
Import ListNotations.
Open Scope Z_scope.

(* from its election until it has reset the flush flag *)
Definition leader (th : thr) : bool :=
  match pc th with
  | S402 | S304 => elected th
  | S404 | S403 | MarkC _ | MarkF1 _ | MarkF2 _ _ | S305 | FUnlock => true
  | _ => false
  end.

(* before the outcome of wait_for_completion is known the thread is not marked elected *)
Definition preelect (p : pcT) : bool :=
  match p with S401 | S301 | WHead | S302 | Waiting | WDone => true | _ => false end.

Record RI (s : St) : Prop := {
  ri_nel : forall u th, lget (thrs s) u = Some th -> preelect (pc th) = true -> elected th = false;
  ri_fip : forall u th, lget (thrs s) u = Some th -> leader th = true -> fip (sh s) = true;
  ri_one : forall u v thu thv, u <> v -> lget (thrs s) u = Some thu -> lget (thrs s) v = Some thv ->
           leader thu = true -> leader thv = true -> False;
  ri_304 : forall u th, lget (thrs s) u = Some th -> pc th = S304 -> elected th = true;
  ri_own : forall u th, lget (thrs s) u = Some th -> (pc th = S402 \/ pc th = S304) -> elected th = true ->
           In (myid th) (pending (sh s));
  ri_stolen : stolen (sh s) = false
}.

Lemma comm1_leader th : comm1 th = true -> leader th = true.
Proof. unfold comm1, leader. destruct (pc th); auto; discriminate. Qed.

(* the commit of the thread that is being elected is still in the queue *)
Lemma elect_in_pending t l s pr cu k id el b w :
  lget l t = Some (Thr pr cu S302 k id el b w) -> LI true (MkSt s l) -> RI (MkSt s l) ->
  memZ id (completed s) = false -> fip s = false -> In id (pending s).
Proof.
  intros Hl HL HR Hc Hf.
  destruct (li_sub _ _ HL t _ Hl eq_refl) as [Hin|Hin]; cbn [sh thrs myid] in Hin; [exact Hin|].
  exfalso. apply in_map_iff in Hin. destruct Hin as [[c u] [Hcu Hin]]. cbn [fst] in Hcu. subst c.
  destruct (li_held _ _ HL _ _ Hin) as [Hd|[thh [Hu Hh]]]; cbn [sh thrs] in *.
  - apply memZ_In in Hd. congruence.
  - pose proof (ri_fip _ HR u thh Hu (comm1_leader _ (holds_comm1 _ _ Hh))) as Hf'. cbn [sh] in Hf'. congruence.
Qed.

Section Step.
  Variables (t : nat) (l : list (nat * thr)) (s s' : shared) (th th' : thr).
  Hypothesis Hl : lget l t = Some th.
  Hypothesis HTS : TS true t s th s' th'.
  Hypothesis HS : SI s.
  Hypothesis HL : LI true (MkSt s l).
  Hypothesis HR : RI (MkSt s l).

  (* a thread becomes leader only by being elected, which needs the flag to be clear *)
  Lemma new_leader : leader th' = true -> leader th = true \/ fip s = false.
  Proof.
    pose proof (ri_304 _ HR t th Hl) as H304.
    pose proof (ri_nel _ HR t th Hl) as Hnel.
    destruct HTS; split_p0; cbn [leader pc elected preelect] in *; auto; try discriminate;
      try (rewrite (Hnel eq_refl); discriminate).
  Qed.

  Lemma leader_fip' : leader th' = true -> fip s' = true.
  Proof.
    pose proof (ri_fip _ HR t th Hl) as Hold. cbn [sh thrs] in Hold.
    pose proof (ri_304 _ HR t th Hl) as H304.
    pose proof (ri_nel _ HR t th Hl) as Hnel.
    destruct HTS; split_p0; cbn [leader pc elected preelect fip sh_push sh_set_fip sh_wait sh_ack sh_steal sh_drain sh_write sh_complete sh_err sh_notify_all] in *;
      auto; try discriminate; try (rewrite (Hnel eq_refl); discriminate).
  Qed.

  Lemma pres_fip :
    forall u x, lget (lset l t th') u = Some x -> leader x = true -> fip s' = true.
  Proof.
    intros u x Hu Hx. destruct (lget_lset_cases _ _ _ _ _ Hu) as [[-> ->]|[Hne Hu']].
    - apply leader_fip'. exact Hx.
    - (* another leader: then t is not a leader, so t does not reset the flag *)
      pose proof (ri_fip _ HR u x Hu' Hx) as Hf. cbn [sh] in Hf.
      assert (Hnl : leader th = false).
      { destruct (leader th) eqn:E; [|reflexivity]. exfalso.
        eapply (ri_one _ HR t u th x); eauto. }
      destruct HTS; cbn [leader pc fip sh_push sh_set_fip sh_wait sh_ack sh_steal sh_drain sh_write sh_complete sh_err sh_notify_all] in *;
        auto; try discriminate.
  Qed.

  Lemma pres_one :
    forall u v thu thv, u <> v -> lget (lset l t th') u = Some thu -> lget (lset l t th') v = Some thv ->
      leader thu = true -> leader thv = true -> False.
  Proof.
    assert (Hnew : forall v thv, v <> t -> lget l v = Some thv -> leader th' = true -> leader thv = true -> False).
    { intros v thv Hne Hv Ht Hlv. destruct (new_leader Ht) as [Hold|Hf].
      - eapply (ri_one _ HR t v th thv); eauto.
      - pose proof (ri_fip _ HR v thv Hv Hlv) as Hf'. cbn [sh] in Hf'. congruence. }
    intros u v thu thv Hne Hu Hv Hlu Hlv.
    destruct (lget_lset_cases _ _ _ _ _ Hu) as [[-> ->]|[Hnu Hu']];
      destruct (lget_lset_cases _ _ _ _ _ Hv) as [[-> ->]|[Hnv Hv']].
    - congruence.
    - eapply Hnew; eauto.
    - eapply Hnew; eauto.
    - eapply (ri_one _ HR u v thu thv); eauto.
  Qed.

  Lemma pres_304 :
    forall u x, lget (lset l t th') u = Some x -> pc x = S304 -> elected x = true.
  Proof.
    intros u x Hu Hx. destruct (lget_lset_cases _ _ _ _ _ Hu) as [[-> ->]|[Hne Hu']].
    - destruct HTS; split_p0; cbn [pc elected] in *; try discriminate Hx.
      match goal with H : true && negb ?e = false |- _ => destruct e; [reflexivity | discriminate H] end.
    - eapply (ri_304 _ HR); eauto.
  Qed.

  Lemma pres_nel :
    forall u x, lget (lset l t th') u = Some x -> preelect (pc x) = true -> elected x = false.
  Proof.
    intros u x Hu Hx. destruct (lget_lset_cases _ _ _ _ _ Hu) as [[-> ->]|[Hne Hu']].
    - pose proof (ri_nel _ HR t th Hl) as Hnel.
      destruct HTS; split_p0; cbn [pc elected preelect] in *; try discriminate Hx; auto.
    - eapply (ri_nel _ HR); eauto.
  Qed.

  Lemma pres_own :
    forall u x, lget (lset l t th') u = Some x -> (pc x = S402 \/ pc x = S304) -> elected x = true ->
      In (myid x) (pending s').
  Proof.
    intros u x Hu Hx He. destruct (lget_lset_cases _ _ _ _ _ Hu) as [[-> ->]|[Hne Hu']].
    - pose proof (ri_own _ HR t th Hl) as Hold. cbn [sh] in Hold.
      pose proof (ri_nel _ HR t th Hl) as Hnel.
      destruct HTS; split_p0; cbn [pc elected myid preelect pending sh_push sh_set_fip] in *;
        try (destruct Hx; discriminate);
        try (rewrite (Hnel eq_refl) in He; discriminate He).
      + (* elect *) eapply elect_in_pending; eauto.
      + (* to304 *) apply Hold; auto.
    - (* somebody else's election: t is not draining, because t is not a leader *)
      pose proof (ri_own _ HR u x Hu' Hx He) as Hin. cbn [sh] in Hin.
      assert (Hlx : leader x = true) by (unfold leader; destruct Hx as [-> | ->]; exact He).
      assert (Hnl : leader th = false).
      { destruct (leader th) eqn:E; [|reflexivity]. exfalso. eapply (ri_one _ HR t u th x); eauto. }
      pose proof (ri_304 _ HR t th Hl) as H304.
      destruct HTS; cbn [leader pc elected pending sh_push sh_set_fip sh_wait sh_ack sh_steal sh_drain sh_write sh_complete sh_err sh_notify_all] in *;
        auto; try discriminate.
      + apply in_app_iff. left. exact Hin.
      + rewrite (H304 eq_refl) in Hnl. discriminate.
  Qed.

  Lemma pres_stolen : stolen s' = false.
  Proof.
    pose proof (ri_stolen _ HR) as Hold. cbn [sh] in Hold.
    pose proof (ri_own _ HR t th Hl) as Hown. cbn [sh] in Hown.
    pose proof (ri_304 _ HR t th Hl) as H304.
    destruct HTS; cbn [stolen pc elected myid sh_push sh_set_fip sh_wait sh_ack sh_steal sh_drain sh_write sh_complete sh_err sh_notify_all] in *; auto.
    - (* none *) exfalso. specialize (H304 eq_refl). specialize (Hown (or_intror eq_refl) H304).
      assert (Hp : pending s = []) by (apply nonempty_false; assumption). rewrite Hp in Hown. destruct Hown.
    - (* drain *) specialize (H304 eq_refl). specialize (Hown (or_intror eq_refl) H304).
      apply memZ_In in Hown. rewrite Hold, Hown, H304. reflexivity.
  Qed.

  Lemma RI_pres : RI (MkSt s' (lset l t th')).
  Proof.
    constructor; cbn [sh thrs].
    - apply pres_nel. - apply pres_fip. - apply pres_one. - apply pres_304. - apply pres_own. - apply pres_stolen.
  Qed.
End Step.

Definition RInv (s : St) : Prop := LInv true s /\ RI s.

Lemma RInv_step t s s' : RInv s -> step true t s = Some s' -> RInv s'.
Proof.
  intros [HLI HR] Hst. split; [eapply LInv_step; eauto|].
  destruct (step_inv _ _ _ _ Hst) as [th0 [sh' [th' [Hl [Ht ->]]]]].
  destruct s as [sh0 l]. cbn [sh thrs] in *.
  eapply RI_pres; [exact Hl | apply tstep_TS; exact Ht | apply (proj2 HLI) | exact HR].
Qed.

Lemma RInv_init progs : RInv (init progs).
Proof.
  split; [apply LInv_init|].
  assert (Hi : forall u th, lget (thrs (init progs)) u = Some th -> pc th = Idle /\ elected th = false).
  { intros u th Hu. cbn [init thrs] in Hu. apply lget_number_from in Hu. apply in_map_iff in Hu. destruct Hu as [p [<- _]]. auto. }
  constructor.
  - intros u th Hu _. apply (Hi u th Hu).
  - intros u th Hu Hlead. unfold leader in Hlead. rewrite (proj1 (Hi u th Hu)) in Hlead. discriminate.
  - intros u v thu thv _ Hu _ Hlead _. unfold leader in Hlead. rewrite (proj1 (Hi u thu Hu)) in Hlead. discriminate.
  - intros u th Hu Hp. rewrite (proj1 (Hi u th Hu)) in Hp. discriminate.
  - intros u th Hu [Hp|Hp]; rewrite (proj1 (Hi u th Hu)) in Hp; discriminate.
  - reflexivity.
Qed.

Theorem RInv_run progs sched : RInv (run (step true) sched (init progs)).
Proof. apply invariant_rule; [apply RInv_init | intros t s s'; apply RInv_step]. Qed.

(* no elected leader ever loses its own commit ... *)
Lemma repair_no_steal_l :
  forall progs sched, stolen (sh (run (step true) sched (init progs))) = false.
Proof. intros. apply (ri_stolen _ (proj2 (RInv_run progs sched))). Qed.

(* ... so every Ok acknowledgement is preceded by the write of the commit's own payload, and
   failures reach every member of the failed batch, for every schedule *)
Lemma repair_written_before_ack_l :
  forall progs sched,
    let s := sh (run (step true) sched (init progs)) in
    forall a, In a (acks s) -> ack_good s a /\ (In (a_id a) (att_fail s) -> a_res a <> ROk).
Proof.
  intros progs sched s a Ha. split.
  - apply (written_before_ack_l true progs sched (repair_no_steal_l progs sched) a Ha).
  - apply (failure_reaches_members_l true progs sched (repair_no_steal_l progs sched) a Ha).
Qed.
