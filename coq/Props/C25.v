(* C25 - HNSW search returns live, correctly ranked neighbours.  Property theorems only.
   Model: coq/Model/Hnsw.v (hand transcription of src/hnsw/{mod,search,operations}.rs and of
   std::collections::BinaryHeap), coq/Model/Sq8.v; tied to the code by the correspondence run. *)
From Coq Require Import ZArith List Bool.
From TV Require Import Model.Hnsw Model.Sq8 Proof.HnswHeap Proof.HnswSearch.
Import ListNotations.
Open Scope Z_scope.

(* every history, every query, every k and search width: at most k results, in non-decreasing order of
   reported distance, and every result reported with a finite distance is a live row (a row of the
   caller's table) whose reported distance is its true squared distance to the query *)
Theorem search_sound_finite :
  forall p ops q k ef l, 0 <= k ->
    search p (getv_of (tbl (run0 p ops))) (ix (run0 p ops)) q k ef = SOk l ->
    Z.of_nat (length l) <= k /\ res_asc l /\
    (forall r z, In (r, Fin z) l -> exists v, a_get r (tbl (run0 p ops)) = Some v /\ z = dist2 q v).
Proof. exact search_sound_finite_l. Qed.

Check search_sound_finite :
  forall p ops q k ef l, 0 <= k ->
    search p (getv_of (tbl (run0 p ops))) (ix (run0 p ops)) q k ef = SOk l ->
    Z.of_nat (length l) <= k /\ res_asc l /\
    (forall r z, In (r, Fin z) l -> exists v, a_get r (tbl (run0 p ops)) = Some v /\ z = dist2 q v).

Print Assumptions search_sound_finite.
