(* C28: the witness histories of Model/BTreeWitness.v reach their defect class and are rejected by the
   ordered-map specification (evaluated by vm_compute). *)
From Coq Require Import ZArith List Bool.
From TV Require Import Lib.MachInt Gen.Varint Model.BTree Model.BTreeSpec Model.BTreeWitness.
Import ListNotations.
Open Scope Z_scope.

Lemma fwd_refuted_l : refutes F_FWD w_fwd.
Proof. vm_compute. split; reflexivity. Qed.
Lemma seek_refuted_l : refutes F_FWD w_seek.
Proof. vm_compute. split; reflexivity. Qed.
Lemma bwd_refuted_l : refutes F_BWD w_bwd.
Proof. vm_compute. split; reflexivity. Qed.
Lemma hint_refuted_l : refutes F_HINT w_hint.
Proof. vm_compute. split; reflexivity. Qed.
Lemma upd_refuted_l : refutes F_UPD w_upd.
Proof. vm_compute. split; reflexivity. Qed.
Lemma leaffull_refuted_l : refutes F_LEAFFULL w_leaffull.
Proof. vm_compute. split; reflexivity. Qed.
Lemma sepdup_refuted_l : refutes F_SEPDUP w_sepdup.
Proof. vm_compute. split; reflexivity. Qed.
Lemma intfull_refuted_l : refutes F_INTFULL w_intfull.
Proof. vm_compute. split; reflexivity. Qed.
