(* C09 proofs, part 10: histories.  For every well-formed schema and every history of INSERT,
   UPDATE and DELETE statements on both tables (updates of key columns, deletes followed by
   re-inserts of the same keys, RESTRICT and CASCADE parent deletes ...) that stays outside the
   recorded classes, a run that the implementation model reproduces satisfies the property: every
   write is accepted iff the resulting database satisfies every declared constraint, and the
   tables are the reference's after every statement. *)
From Coq Require Import ZArith List Bool Lia.
From TV Require Import Model.SqlSpec Model.CheckStr Model.ConstrSpec Model.ConstrImpl Model.ConstrClass
                       Proof.ConstrBase Proof.ConstrIns Proof.ConstrSel Proof.ConstrDel Proof.ConstrUpd Corr.C09.
Import ListNotations.
Open Scope Z_scope.

Lemma step_exact_l sch st s :
  wf_schema sch -> Inv sch st ->
  stmt_class sch st s = 0 -> stmt_defined sch (abs_db st) s = true ->
  exists ok st', impl_step sch st s = (Some ok, st') /\
                 exec_write sch (abs_db st) s = (ok, abs_db st') /\ Inv sch st'.
Proof.
  intros W I Hc Hd. destruct s as [t rows|t sets w|t w|t c e w]; [| | |cbn [stmt_class] in Hc; discriminate].
  - apply insert_exact_l; try assumption.
    + unfold stmt_defined in Hd. apply andb_true_iff in Hd. destruct Hd as [_ Hd].
      apply andb_true_iff in Hd. tauto.
    + cbn [stmt_class] in Hc. destruct (ins_partial sch t st rows); [discriminate|reflexivity].
  - apply update_exact_l; try assumption.
    unfold stmt_defined in Hd. rewrite !andb_true_iff in Hd. tauto.
  - apply delete_exact_l; assumption.
Qed.

Lemma go_exact sch :
  wf_schema sch ->
  forall steps st, Inv sch st ->
    hist_class_from sch st (map fst steps) = 0 ->
    impl_go sch st steps = true -> spec_go sch (abs_db st) steps = true.
Proof.
  intros W. induction steps as [|[s o] steps IH]; intros st I Hc Hm; [reflexivity|].
  cbn [map fst hist_class_from] in Hc.
  destruct (stmt_class sch st s =? 0) eqn:Hk; [|destruct (stmt_class sch st s); try discriminate; cbn in Hk; discriminate].
  apply Z.eqb_eq in Hk.
  cbn [spec_go]. unfold spec_step. destruct (stmt_defined sch (abs_db st) s) eqn:Hd; [|reflexivity].
  destruct (step_exact_l sch st s W I Hk Hd) as [ok [st' [E1 [E2 I']]]].
  rewrite E2. cbn [impl_go] in Hm. rewrite E1 in Hm. rewrite E1 in Hc. cbn [snd] in Hc.
  destruct o as [ok' p c|]; [|discriminate].
  apply andb_true_iff in Hm. destruct Hm as [Hm Hrest]. rewrite Hm. cbn [andb].
  apply (IH st' I' Hc Hrest).
Qed.

Theorem constraints_exact_l :
  forall sch steps,
    wf_schema sch ->
    side_class (Hist sch steps) = 0 -> model_agrees (Hist sch steps) = true ->
    spec_ok (Hist sch steps) = true.
Proof.
  intros sch steps W Hk Hm. unfold side_class, hist_class in Hk. unfold model_agrees in Hm. unfold spec_ok.
  destruct (schema_class sch =? 0) eqn:Hs; [|destruct (schema_class sch); try discriminate; cbn in Hs; discriminate].
  exact (go_exact sch W steps (d_empty sch) (inv_empty sch) Hk Hm).
Qed.

(* the model itself: from the empty database, along a history outside the classes, what the
   implementation model does is what the reference does *)
Fixpoint spec_run (sch : schema) (d : db) (h : list stmt) : option (list (bool * db)) :=
  match h with
  | [] => Some []
  | s :: h' => match spec_step sch d s with
               | Some (ok, d') => match spec_run sch d' h' with Some tr => Some ((ok, d') :: tr) | None => None end
               | None => None
               end
  end.
Fixpoint impl_trace (sch : schema) (st : dstate) (h : list stmt) : list (option bool * db) :=
  match h with
  | [] => []
  | s :: h' => let '(o, st') := impl_step sch st s in (o, abs_db st') :: impl_trace sch st' h'
  end.
Theorem model_refines_spec_l :
  forall sch h tr,
    wf_schema sch -> hist_class sch h = 0 -> spec_run sch db_empty h = Some tr ->
    impl_trace sch (d_empty sch) h = map (fun p => (Some (fst p), snd p)) tr.
Proof.
  intros sch h tr W Hk. unfold hist_class in Hk.
  destruct (schema_class sch =? 0) eqn:Hs; [|destruct (schema_class sch); try discriminate; cbn in Hs; discriminate].
  assert (G : forall h st tr, Inv sch st -> hist_class_from sch st h = 0 -> spec_run sch (abs_db st) h = Some tr ->
              impl_trace sch st h = map (fun p => (Some (fst p), snd p)) tr).
  { induction h0 as [|s h0 IH]; intros st tr0 I Hc Hr.
    - cbn [spec_run] in Hr. injection Hr as <-. reflexivity.
    - cbn [hist_class_from] in Hc.
      destruct (stmt_class sch st s =? 0) eqn:Hk1; [|destruct (stmt_class sch st s); try discriminate; cbn in Hk1; discriminate].
      apply Z.eqb_eq in Hk1. cbn [spec_run] in Hr. unfold spec_step in Hr.
      destruct (stmt_defined sch (abs_db st) s) eqn:Hd; [|discriminate].
      destruct (step_exact_l sch st s W I Hk1 Hd) as [ok [st' [E1 [E2 I']]]].
      rewrite E2 in Hr. rewrite E1 in Hc. cbn [snd] in Hc.
      destruct (spec_run sch (abs_db st') h0) as [tr1|] eqn:Hr1; [|discriminate]. injection Hr as <-.
      cbn [impl_trace]. rewrite E1. cbn [map fst snd]. f_equal. exact (IH st' tr1 I' Hc Hr1). }
  intros Hr. exact (G h (d_empty sch) tr (inv_empty sch) Hk Hr).
Qed.

(* the CHECK classes 1-4 are exactly the complement of the fragment (up to the size bound) *)
Lemma conj_of_skeleton ci e :
  leaves_ok ci e = true -> has_not e = false -> or_under_and e = false -> is_or e = false -> conj_ok ci e = true.
Proof.
  induction e; cbn [leaves_ok has_not or_under_and is_or conj_ok]; intros L N O R; try exact L; try discriminate.
  apply andb_true_iff in L. destruct L as [L1 L2]. apply orb_false_iff in N. destruct N as [N1 N2].
  apply orb_false_iff in O. destruct O as [O O4]. apply orb_false_iff in O. destruct O as [O O3].
  apply orb_false_iff in O. destruct O as [O1 O2].
  rewrite (IHe1 L1 N1 O3 O1), (IHe2 L2 N2 O4 O2). reflexivity.
Qed.
Lemma dnf_of_skeleton ci e :
  leaves_ok ci e = true -> has_not e = false -> or_under_and e = false -> dnf_ok ci e = true.
Proof.
  induction e; intros L N O; try exact (conj_of_skeleton ci _ L N O eq_refl); try (cbn [has_not] in N; discriminate).
  cbn [leaves_ok has_not or_under_and dnf_ok] in *.
  apply andb_true_iff in L. destruct L as [L1 L2]. apply orb_false_iff in N. destruct N as [N1 N2].
  apply orb_false_iff in O. destruct O as [O1 O2].
  rewrite (IHe1 L1 N1 O1), (IHe2 L2 N2 O2). reflexivity.
Qed.
Lemma chk_class_zero_frag_l names ci e :
  chk_class names ci e = 0 -> (atoms e <= 30)%nat -> chk_frag ci e = true.
Proof.
  unfold chk_class, chk_frag. destruct (print_chk names e); [|discriminate].
  destruct (leaves_ok ci e) eqn:L; [|discriminate]. cbn [negb].
  destruct (has_not e) eqn:N; [discriminate|]. destruct (or_under_and e) eqn:O; [discriminate|].
  intros _ Ha. rewrite (dnf_of_skeleton ci e L N O). apply Nat.leb_le. exact Ha.
Qed.
