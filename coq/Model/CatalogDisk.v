(* C40 model, crash half: a tiny file-system model (two paths, inodes with a volatile and a
   durable content, a journal of pending directory operations) and CatalogPersistence::save as
   the event list it issues: since /repo 5a0cf56 [save_atomic] (File::create of <path>.tmp,
   write_all header, write_all body, sync_all, rename over the catalog, best-effort fsync of the
   directory); before that commit [save_inplace] (the same writes IN PLACE on the live file),
   kept for the historical refutation.  Definitions only, no proofs. *)
From Coq Require Import ZArith List Bool.
From TV Require Import Lib.MachInt Model.Catalog.
Import ListNotations.
Open Scope Z_scope.

Definition path := Z.
Definition p_catalog : path := 0.      (* <db>/turdb.catalog *)
Definition p_tmp : path := 1.          (* <db>/turdb.catalog.tmp *)

Inductive ev :=
| EvCreate (p : path)                  (* File::create: create, or open + truncate to 0 *)
| EvWrite (p : path) (d : list Z)      (* write_all at the file cursor (sequential, from 0) *)
| EvSync (p : path)                    (* File::sync_all: the file's data *)
| EvRename (src dst : path)            (* std::fs::rename: atomic replacement of dst *)
| EvSyncDir.                           (* fsync of the directory *)

(* i_cur: what a running process reads; i_dur: the content that is on stable storage for sure;
   i_dirty: written or truncated since the last sync *)
Record inode := Inode { i_cur : list Z; i_dur : list Z; i_dirty : bool }.
Inductive nsop := NsLink (p : path) (i : nat) | NsRename (src dst : path).
Definition names := list (path * nat).
Record fs := Fs { inodes : list inode; ns_cur : names; ns_dur : names; ns_pending : list nsop }.

Fixpoint ns_lookup (ns : names) (p : path) : option nat :=
  match ns with
  | [] => None
  | (q, i) :: r => if q =? p then Some i else ns_lookup r p
  end.
Definition ns_remove (ns : names) (p : path) : names := filter (fun e => negb (fst e =? p)) ns.
Definition ns_apply (ns : names) (o : nsop) : names :=
  match o with
  | NsLink p i => (p, i) :: ns_remove ns p
  | NsRename s d =>
    match ns_lookup ns s with
    | Some i => (d, i) :: ns_remove (ns_remove ns s) d
    | None => ns
    end
  end.

Fixpoint upd_inode (l : list inode) (i : nat) (f : inode -> inode) : list inode :=
  match l, i with
  | [], _ => []
  | x :: r, O => f x :: r
  | x :: r, S i' => x :: upd_inode r i' f
  end.

Definition step (s : fs) (e : ev) : fs :=
  match e with
  | EvCreate p =>
    match ns_lookup (ns_cur s) p with
    | Some i => Fs (upd_inode (inodes s) i (fun x => Inode [] (i_dur x) true)) (ns_cur s) (ns_dur s) (ns_pending s)
    | None =>
      let i := length (inodes s) in
      Fs (inodes s ++ [Inode [] [] false]) (ns_apply (ns_cur s) (NsLink p i)) (ns_dur s)
         (ns_pending s ++ [NsLink p i])
    end
  | EvWrite p d =>
    match ns_lookup (ns_cur s) p with
    | Some i => Fs (upd_inode (inodes s) i (fun x => Inode (i_cur x ++ d) (i_dur x) true)) (ns_cur s) (ns_dur s) (ns_pending s)
    | None => s
    end
  | EvSync p =>
    match ns_lookup (ns_cur s) p with
    | Some i => Fs (upd_inode (inodes s) i (fun x => Inode (i_cur x) (i_cur x) false)) (ns_cur s) (ns_dur s) (ns_pending s)
    | None => s
    end
  | EvRename a b => Fs (inodes s) (ns_apply (ns_cur s) (NsRename a b)) (ns_dur s) (ns_pending s ++ [NsRename a b])
  | EvSyncDir => Fs (inodes s) (ns_cur s) (ns_cur s) []
  end.

(* an event interrupted after j bytes: only a write can be partial *)
Definition step_partial (s : fs) (e : ev) (j : nat) : fs :=
  match e with
  | EvWrite p d => step s (EvWrite p (firstn j d))
  | _ => s
  end.

(* crash point (k, j): the first k events are complete, event k (if any) got j bytes far *)
Definition run_to (prog : list ev) (k j : nat) (s : fs) : fs :=
  let done := fold_left step (firstn k prog) s in
  match nth_error prog k with
  | Some e => step_partial done e j
  | None => done
  end.

(* ---- what is found at a path after the crash *)
Inductive mode := Kill | PowerLoss.

(* process killed, OS alive: exactly the completed system calls *)
Definition kill_view (s : fs) (p : path) : option (list Z) :=
  match ns_lookup (ns_cur s) p with
  | Some i => match nth_error (inodes s) i with Some x => Some (i_cur x) | None => None end
  | None => None
  end.

(* power loss: the durable directory plus any prefix of the pending directory operations
   (ordered metadata journal); a file that is not dirty has exactly its synced content, a dirty
   one has its last synced content or any prefix of its current content *)
Definition pl_content (x : inode) (c : list Z) : Prop :=
  c = i_dur x \/ (i_dirty x = true /\ exists n : nat, c = firstn n (i_cur x)).
Definition pl_view (s : fs) (p : path) (v : option (list Z)) : Prop :=
  exists m : nat,
    let ns := fold_left ns_apply (firstn m (ns_pending s)) (ns_dur s) in
    match ns_lookup ns p with
    | None => v = None
    | Some i => exists x c, nth_error (inodes s) i = Some x /\ pl_content x c /\ v = Some c
    end.
Definition crash_view (m : mode) (s : fs) (p : path) (v : option (list Z)) : Prop :=
  match m with Kill => v = kill_view s p | PowerLoss => pl_view s p v end.

(* ---- the two save protocols *)
(* before the save: the catalog file holds [old], fully synced; [stale]: a temporary file left
   behind by an earlier interrupted save, if any *)
Definition init_fs (old : list Z) (stale : option (list Z)) : fs :=
  match stale with
  | None => Fs [Inode old old false] [(p_catalog, 0%nat)] [(p_catalog, 0%nat)] []
  | Some t => Fs [Inode old old false; Inode t t false]
                 [(p_catalog, 0%nat); (p_tmp, 1%nat)] [(p_catalog, 0%nat); (p_tmp, 1%nat)] []
  end.

(* CatalogPersistence::save before /repo 5a0cf56 (historical) *)
Definition save_inplace (h b : list Z) : list ev :=
  [EvCreate p_catalog; EvWrite p_catalog h; EvWrite p_catalog b; EvSync p_catalog].
(* CatalogPersistence::save as it is (since /repo 5a0cf56).  The directory fsync is best effort
   in the code (`if let Ok(dir) = File::open(parent)`): a run without it is the crash point k = 5
   that lasts for ever, so everything proved for all crash points covers it *)
Definition save_atomic (h b : list Z) : list ev :=
  [EvCreate p_tmp; EvWrite p_tmp h; EvWrite p_tmp b; EvSync p_tmp; EvRename p_tmp p_catalog; EvSyncDir].

(* the crash points finding F-C40-1 (fixed) was about: after the truncation and before the last
   byte of the body has been written, in save_inplace *)
Definition inside_rewrite (h b : list Z) (k j : nat) : bool :=
  match k with
  | O => false
  | 1%nat => Nat.ltb j (length h) || Nat.ltb 0 (length b)
  | 2%nat => Nat.ltb j (length b)
  | _ => false
  end.

(* a file that holds the first n bytes of header ++ body: as a crash point of save_inplace (the
   live file) and equally of save_atomic (the temporary file) *)
Definition prefix_point (n : Z) : nat * nat :=
  if n <=? 128 then (1%nat, Z.to_nat n) else (2%nat, Z.to_nat (n - 128)).

(* Database::open -> ensure_catalog -> load_catalog: a missing catalog file is an empty catalog,
   an unreadable one makes open fail *)
Definition load_view (v : option (list Z)) : res catalog :=
  match v with Some f => load_file f | None => Ok base_catalog end.

(* ---- the property's reading of "does not lose tables or indexes that existed before":
   every table of [old], and every index of it by name, is in the catalog that loads *)
Definition table_kept (c : catalog) (sn : str) (t : table) : bool :=
  match find_table c sn (t_name t) with
  | Some t' => forallb (fun i => existsb (fun i' => zlist_eqb (ix_name i') (ix_name i)) (t_indexes t')) (t_indexes t)
  | None => false
  end.
Definition keeps_old (old : catalog) (r : res catalog) : bool :=
  match r with
  | Ok c => forallb (fun s => forallb (table_kept c (s_name s)) (s_tables s)) old
  | _ => false
  end.

(* a small concrete history: table t1 (with an index) exists, CREATE TABLE t2 is executed *)
Definition ex_t1 : table :=
  Table 3 [116;49] [Column [105;100] 2 [CPrimaryKey; CNotNull] None None; Column [110;97;109;101] 20 [] (Some [120]) None]
        None [Index [105;100;95;112;107;101;121] [IdxCol (ICColumn [105;100]) false] true false None] (Some 4).
Definition ex_t2 : table := Table 5 [116;50] [Column [105;100] 2 [] None None] None [] None.
Definition ex_old : catalog := [Schema 0 name_root [ex_t1]; Schema 1 name_syscat []].
Definition ex_new : catalog := [Schema 0 name_root [ex_t1; ex_t2]; Schema 1 name_syscat []].
