(* C22 proofs, part 2: every scan_* helper of the lexer terminates within its fuel, makes progress
   (consumes at least one byte), keeps the state invariant and - on valid UTF-8 shorter than 2^31
   bytes - does not panic (index, slice, u32 / i32 counters, usize subtraction). *)
From Coq Require Import ZArith List Bool Arith Lia ZifyBool.
From TV Require Import Model.LexerKeywords Model.Lexer Proof.LexerBase.
Import ListNotations.
Open Scope Z_scope.

Ltac Zify.zify_post_hook ::= Z.to_euclidean_division_equations.

Section Scan.
Variable s : list Z.
Variable pan : bool.
Hypothesis Hgood : pan = false -> utf8_valid s = true /\ Z.of_nat (len s) < 2 ^ 31.

Notation inv := (inv s pan).
Notation bd := (bd s pan).
Notation wp := (wp pan).

(* result of a scanner started at st: invariant kept, at least one byte consumed *)
Definition sc_post (st : lx) (r : sres) : Prop :=
  match r with
  | Done _ st' => inv st' /\ (pos st < pos st')%nat
  | Again st' => inv st' /\ (pos st < pos st')%nat
  end.

(* ---- tactics: symbolic execution of the monadic code *)
Ltac eofs :=
  repeat match goal with
         | H : is_eof s _ = true |- _ => apply (proj1 (eof_true s _)) in H
         | H : is_eof s _ = false |- _ => apply (proj1 (eof_false s _)) in H
         end.

Ltac ex_bytes :=
  repeat match goal with
         | H : exists b, nth_error _ _ = Some b /\ _ |- _ => destruct H as (? & ? & ? & ?)
         end.

(* a goal `bd i` *)
Ltac bdt :=
  first
    [ assumption
    | apply (bd_len s pan)
    | eapply (bd_at s pan); [eassumption | cls]
    | match goal with
      | H : forall b, nth_error s _ = Some b -> is_ascii b = true -> LexerBase.bd s pan _ |- _ =>
          eapply H; [eassumption | cls]
      end ].

Ltac step :=
  match goal with
  | |- LexerBase.wp _ (bind (advance _ _) _) _ =>
      eapply wp_bind; [apply (wp_advance s pan Hgood); assumption|];
      let st' := fresh "st" in intros st' (? & ? & ? & ? & ? & ?)
  | |- LexerBase.wp _ (bind (skip_while _ _ (lfuel _) _) _) _ =>
      eapply wp_bind; [apply (wp_skip_while s pan Hgood); [assumption | unfold lfuel; lia]|];
      let st' := fresh "st" in intros st' (? & ? & ? & ? & ?)
  | |- LexerBase.wp _ (bind (slice _ _ _) _) _ =>
      eapply wp_bind; [apply (wp_slice s pan) | intros _ _]
  | |- LexerBase.wp _ (bind (at_byte _ _ _) _) _ =>
      eapply wp_bind; [apply (wp_at_byte s pan)|];
      let g := fresh "g" in intros g ?; destruct g
  | |- LexerBase.wp _ (bind (current _ _) _) _ =>
      eapply wp_bind; [apply (wp_current s pan); lia|]; intros ? ?
  | |- LexerBase.wp _ (if is_eof _ _ then _ else _) _ =>
      let E := fresh "E" in destruct (is_eof s _) eqn:E; eofs
  | |- LexerBase.wp _ (if ?c then _ else _) _ => let E := fresh "E" in destruct c eqn:E
  end.

Ltac fin := simpl; split; [assumption | lia].

(* ---------------------------------------------------------------- one-byte and two-byte operators *)
Lemma wp_scan_single : forall t st, inv st -> (pos st < len s)%nat -> wp (scan_single s t st) (sc_post st).
Proof. intros t st Hi Hp. unfold scan_single. step. fin. Qed.

Lemma wp_scan_pair : forall c2 two one st, inv st -> (pos st < len s)%nat ->
  wp (scan_pair s c2 two one st) (sc_post st).
Proof.
  intros c2 two one st Hi Hp. unfold scan_pair. step. step.
  - ex_bytes. step. fin.
  - fin.
Qed.

Lemma wp_scan_hash : forall st, inv st -> (pos st < len s)%nat -> wp (scan_hash s st) (sc_post st).
Proof.
  intros st Hi Hp. unfold scan_hash. step. step; [fin|]. step. step; [|fin].
  step. step.
  - ex_bytes. step. fin.
  - fin.
Qed.

Lemma wp_scan_greater_than : forall st, inv st -> (pos st < len s)%nat -> wp (scan_greater_than s st) (sc_post st).
Proof.
  intros st Hi Hp. unfold scan_greater_than. step. step; [fin|]. step.
  step; [step; fin|]. step; [step; fin|]. fin.
Qed.

Lemma wp_scan_question : forall st, inv st -> (pos st < len s)%nat -> wp (scan_question s st) (sc_post st).
Proof.
  intros st Hi Hp. unfold scan_question. step. step; [fin|]. step.
  step; [step; fin|]. step; [step; fin|]. fin.
Qed.

(* `self.pos -= 1` after two advances from the token start *)
Lemma wp_back_one : forall st0 a, inv st0 -> inv a -> pos a = S (S (pos st0)) ->
  (pan = false -> col a <= col st0 + 2 /\ line a <= line st0 + 2) ->
  wp (back_one a) (fun b => inv b /\ (pos st0 < pos b)%nat).
Proof.
  intros st0 a [Hp0 Hc0] [Hpa Hca] Hpos Hcol. unfold back_one.
  rewrite Hpos. cbn [Nat.eqb]. simpl.
  split; [|cbn [pos]; lia].
  unfold LexerBase.inv. cbn [pos line col]. split; [lia|].
  intros Hq. specialize (Hc0 Hq). specialize (Hca Hq). specialize (Hcol Hq). lia.
Qed.

Lemma wp_scan_less_than : forall st, inv st -> (pos st < len s)%nat -> wp (scan_less_than s st) (sc_post st).
Proof.
  intros st Hi Hp. unfold scan_less_than. step. step; [fin|]. step.
  step.
  { step. step.
    - ex_bytes. step. fin.
    - fin. }
  step; [step; fin|]. step; [step; fin|]. step; [step; fin|].
  step.
  { step. step.
    - ex_bytes. step. fin.
    - eapply wp_bind; [eapply (wp_back_one st); try assumption; [lia | intros Hq; repeat match goal with H : pan = false -> _ |- _ => specialize (H Hq) end; lia]|].
      intros b [? ?]. fin. }
  step.
  { step. step.
    - ex_bytes. step. fin.
    - eapply wp_bind; [eapply (wp_back_one st); try assumption; [lia | intros Hq; repeat match goal with H : pan = false -> _ |- _ => specialize (H Hq) end; lia]|].
      intros b [? ?]. fin. }
  fin.
Qed.


(* ---------------------------------------------------------------- loops *)
Lemma wp_quoted_loop : forall q fuel st, inv st -> (len s - pos st < fuel)%nat ->
  wp (quoted_loop s q fuel st)
     (fun r => inv (fst r) /\ (pos st <= pos (fst r))%nat /\
               (snd r = true -> nth_error s (pos (fst r)) = Some q /\ (pos (fst r) < len s)%nat)).
Proof.
  intros q fuel. induction fuel as [|f IH]; intros st Hi Hf; [lia|].
  cbn [quoted_loop]. step.
  - simpl. split; [assumption|]. split; [lia|]. discriminate.
  - step. step.
    + step.
      * step. step. eapply wp_weaken; [apply IH; [assumption|lia]|].
        intros [st3 c] (? & ? & ?). cbn [fst snd] in *. split; [assumption|]. split; [lia|]. assumption.
      * simpl. split; [assumption|]. split; [lia|]. intros _.
        apply Z.eqb_eq in E0. subst. split; assumption.
    + step. eapply wp_weaken; [apply IH; [assumption|lia]|].
      intros [st3 c] (? & ? & ?). cbn [fst snd] in *. split; [assumption|]. split; [lia|]. assumption.
Qed.

Lemma wp_hex_lit_loop : forall fuel st, inv st -> (len s - pos st < fuel)%nat ->
  wp (hex_lit_loop s fuel st)
     (fun r => inv (fst r) /\ (pos st <= pos (fst r))%nat /\
               (snd r = false -> (pos (fst r) < len s)%nat -> nth_error s (pos (fst r)) = Some 39)).
Proof.
  induction fuel as [|f IH]; intros st Hi Hf; [lia|].
  cbn [hex_lit_loop]. step.
  - simpl. split; [assumption|]. split; [lia|]. intros _ ?. lia.
  - step. step.
    + simpl. split; [assumption|]. split; [lia|]. intros _ _. apply Z.eqb_eq in E0. subst. assumption.
    + step.
      * simpl. split; [assumption|]. split; [lia|]. discriminate.
      * step. eapply wp_weaken; [apply IH; [assumption|lia]|].
        intros [st3 c] (? & ? & ?). cbn [fst snd] in *. split; [assumption|]. split; [lia|]. assumption.
Qed.

Lemma wp_dollar_loop : forall tag fuel st, inv st -> (len s - pos st < fuel)%nat ->
  wp (dollar_loop s tag fuel st)
     (fun r => inv (fst r) /\ (pos st <= pos (fst r))%nat /\
               (snd r = true -> nth_error s (pos (fst r)) = Some 36)).
Proof.
  intros tag. induction fuel as [|f IH]; intros st Hi Hf; [lia|].
  cbn [dollar_loop]. step.
  - simpl. split; [assumption|]. split; [lia|]. discriminate.
  - step. step.
    + apply Z.eqb_eq in E0. subst a.
      eapply wp_bind; [apply (wp_slice s pan); [unfold len in *; lia | eapply (bd_at s pan); [eassumption | reflexivity] | apply (bd_len s pan)]|].
      intros _ _. step.
      * simpl. split; [assumption|]. split; [lia|]. intros _. assumption.
      * step. eapply wp_weaken; [apply IH; [assumption|lia]|].
        intros [st3 c] (? & ? & ?). cbn [fst snd] in *. split; [assumption|]. split; [lia|]. assumption.
    + step. eapply wp_weaken; [apply IH; [assumption|lia]|].
      intros [st3 c] (? & ? & ?). cbn [fst snd] in *. split; [assumption|]. split; [lia|]. assumption.
Qed.

(* depth : i32; depth <= pos keeps `depth += 1` below i32::MAX *)
Lemma wp_block_loop : forall fuel depth st, inv st -> (len s - pos st < fuel)%nat ->
  (pan = false -> depth <= Z.of_nat (pos st)) ->
  wp (block_loop s fuel depth st) (fun r => inv (fst r) /\ (pos st <= pos (fst r))%nat).
Proof.
  induction fuel as [|f IH]; intros depth st Hi Hf Hd; [lia|].
  cbn [block_loop].
  destruct (is_eof s st || (depth <=? 0)) eqn:E0.
  - simpl. split; [assumption | lia].
  - apply orb_false_elim in E0 as [E0 E1]. eofs.
    step. step.
    + step. step.
      destruct pan eqn:Epan.
      * destruct (depth <? i32_max); [|simpl; reflexivity].
        eapply wp_weaken; [apply IH; [assumption | lia | intros; discriminate]|].
        intros [st3 c] (? & ?). cbn [fst snd] in *. split; [assumption | lia].
      * destruct (Hgood eq_refl) as [_ Hl]. change (2 ^ 31) with 2147483648 in Hl.
        specialize (Hd eq_refl). unfold i32_max.
        replace (depth <? 2147483647) with true by lia.
        eapply wp_weaken; [apply IH; [assumption | lia | intros _; lia]|].
        intros [st3 c] (? & ?). cbn [fst snd] in *. split; [assumption | lia].
    + step.
      * step. step. eapply wp_weaken; [apply IH; [assumption | lia | intros Hq; specialize (Hd Hq); lia]|].
        intros [st3 c] (? & ?). cbn [fst snd] in *. split; [assumption | lia].
      * step. eapply wp_weaken; [apply IH; [assumption | lia | intros Hq; specialize (Hd Hq); lia]|].
        intros [st3 c] (? & ?). cbn [fst snd] in *. split; [assumption | lia].
Qed.

End Scan.
