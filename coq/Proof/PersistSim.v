(* C04 proofs, part 2: outside the recorded finding classes the run with interruptions and the
   run without them return the same for every statement (for every history of the modelled
   language).  A lock-step simulation with two invariants:
     Lrel   the logical states of run A and run B agree up to row ids (Proof/PersistRel.v: after a
            reopen the counter is rebuilt from the stored keys, so the two runs may number new
            rows differently), same WAL switch, all stored row ids below the respective counter;
     Fresh  in run A every page image in the WAL equals the page, unless the class-2 scanner has
            flagged the table (so a replay of the WAL is the identity while no flag is raised). *)
From Coq Require Import ZArith List Bool Lia.
From TV Require Import Model.Persist Proof.Persist Proof.PersistRel.
Import ListNotations.
Open Scope Z_scope.

Record Lrel (sA sB : st) : Prop := mkLrel {
  L_tab : forall t, osim (s_tab sA t) (s_tab sB t);
  L_wal : s_wal sA = s_wal sB;
  L_bA : bnd (s_tab sA) (s_next sA);
  L_bB : bnd (s_tab sB) (s_next sB) }.

Record Fresh (b : k2) (s : st) : Prop := mkFresh {
  F_wal : k_wal b = s_wal s;
  F_txn : k_txn b = false;
  F_img : forall t tb img, s_tab s t = Some tb -> p_img (s_ph s t) = Some img ->
            k_lg b t = true /\ (k_st b t = false -> img = t_rows tb);
  F_slot : forall t tb, s_tab s t = Some tb -> slot_ok t = true;
  F_wobj : s_wal s = true -> s_walobj s = true;
  F_noimg : s_walobj s = false -> forall t, p_img (s_ph s t) = None }.

Lemma init_Lrel : forall wal, Lrel (init wal) (init wal).
Proof. intros. constructor; cbn; auto; intros t tb E; discriminate. Qed.
Lemma init_Fresh : forall wal, Fresh (k2_init wal) (init wal).
Proof. intros. constructor; cbn; auto; intros; discriminate. Qed.

(* ------------------------------------------------------------------ shape of a statement step *)
Lemma step_stmt : forall s o, is_int o = false ->
  step s o = (mkS (l_tab (lstep (s_tab s) (s_next s) (s_wal s) o))
                  (phys_after (s_ph s) (s_wal s) (l_tab (lstep (s_tab s) (s_next s) (s_wal s) o))
                              (l_eff (lstep (s_tab s) (s_next s) (s_wal s) o)))
                  (l_next (lstep (s_tab s) (s_next s) (s_wal s) o))
                  (l_wal (lstep (s_tab s) (s_next s) (s_wal s) o))
                  (s_walobj s || l_wal (lstep (s_tab s) (s_next s) (s_wal s) o)),
              l_obs (lstep (s_tab s) (s_next s) (s_wal s) o)).
Proof. intros s o H. destruct o; cbn in H; try discriminate; reflexivity. Qed.

(* ------------------------------------------------------------------ statements keep the logical relation *)
Lemma stmt_L : forall o sA sB,
  is_int o = false -> Lrel sA sB ->
  snd (step sA o) = snd (step sB o) /\ Lrel (fst (step sA o)) (fst (step sB o)).
Proof.
  intros o sA sB HI [HT HW BA BB].
  rewrite (step_stmt sA o HI), (step_stmt sB o HI). cbn [fst snd].
  rewrite <- HW.
  destruct (lstep_rel o (s_tab sA) (s_tab sB) (s_next sA) (s_next sB) (s_wal sA) HT BA BB)
    as (ST & SW & SO & SE & B1 & B2).
  split; [exact SO|]. constructor; cbn [s_tab s_wal s_next]; assumption.
Qed.

(* ------------------------------------------------------------------ statements keep the images fresh *)
(* generic frame: everything about tables other than t is untouched *)
Lemma Fresh_frame : forall b b' s s' t,
  k_wal b' = s_wal s' -> k_txn b' = false ->
  (s_wal s' = true -> s_walobj s' = true) ->
  (s_walobj s' = false -> forall u, p_img (s_ph s' u) = None) ->
  (forall u, u <> t -> s_tab s' u = s_tab s u /\ s_ph s' u = s_ph s u /\ k_lg b' u = k_lg b u /\ k_st b' u = k_st b u) ->
  (forall tb img, s_tab s' t = Some tb -> p_img (s_ph s' t) = Some img ->
      k_lg b' t = true /\ (k_st b' t = false -> img = t_rows tb)) ->
  (forall tb, s_tab s' t = Some tb -> slot_ok t = true) ->
  Fresh b s -> Fresh b' s'.
Proof.
  intros b b' s s' t HW HX HO HN HU HT HS [FW FT FI FS FO FN].
  constructor; auto.
  - intros u tb img E1 E2. destruct (Z.eq_dec u t) as [->|NE]; [eauto|].
    destruct (HU u NE) as (A1 & A2 & A3 & A4). rewrite A1 in E1. rewrite A2 in E2. rewrite A3, A4. eauto.
  - intros u tb E1. destruct (Z.eq_dec u t) as [->|NE]; [eauto|].
    destruct (HU u NE) as (A1 & _). rewrite A1 in E1. eauto.
Qed.

Lemma orb_wobj : forall s w, (s_wal s = true -> s_walobj s = true) -> (w = true -> s_walobj s || w = true).
Proof. intros s w _ ->. apply orb_true_r. Qed.

(* a statement that touched table t: the new leaf is rows', `changed` / `flushed` as reported to
   both the physical layer and the scanner *)
Lemma Fresh_touch : forall b s t tb tb' n' changed flushed,
  Fresh b s -> s_tab s t = Some tb ->
  (changed = false -> t_rows tb' = t_rows tb) ->
  Fresh (k2_touch b t changed flushed)
        (mkS (upd (s_tab s) t (Some tb'))
             (phys_after (s_ph s) (s_wal s) (upd (s_tab s) t (Some tb')) (ETouch t changed flushed))
             n' (s_wal s) (s_walobj s || s_wal s)).
Proof.
  intros b s t tb tb' n' changed flushed F ET HR.
  pose proof F as [FW FT FI FS FO FN].
  assert (s_walobj s || s_wal s = s_walobj s) as EO.
  { destruct (s_wal s) eqn:W; [rewrite (FO eq_refl); reflexivity | apply orb_false_r]. }
  apply (Fresh_frame b _ s _ t); cbn [s_tab s_ph s_wal s_walobj k_wal k_txn k_lg k_st k2_touch phys_after]; auto.
  - rewrite EO. exact FO.
  - rewrite EO. intros WO u. destruct (s_wal s) eqn:W; [rewrite (FO eq_refl) in WO; discriminate|]. now apply FN.
  - intros u NE. rewrite (upd_other _ _ _ _ _ NE). repeat split.
    + destruct (s_wal s); [|reflexivity].
      destruct (flushed && (p_dirty (s_ph s t) || changed)); now rewrite upd_other.
    + destruct (k_wal b && negb (k_txn b) && flushed); [now rewrite upd_other | reflexivity].
    + destruct changed; [now rewrite upd_other | reflexivity].
  - rewrite upd_same. intros tb0 img E0 EI. inversion E0; subst tb0; clear E0.
    rewrite FW, FT. cbn [negb]. rewrite andb_true_r.
    destruct (s_wal s) eqn:W; cbn [andb].
    + (* WAL on *)
      destruct flushed; cbn [andb] in *.
      * rewrite upd_same.
        destruct (p_dirty (s_ph s t) || changed) eqn:D.
        -- rewrite ?upd_same in EI. cbn in EI. rewrite ?upd_same in EI. inversion EI; subst img.
           split; [reflexivity|]. intros _. reflexivity.
        -- rewrite ?upd_same in EI. cbn in EI.
           apply orb_false_iff in D. destruct D as [_ ->].
           split; [reflexivity|]. intros ST. rewrite (HR eq_refl).
           destruct (FI t tb img ET EI) as [_ G]. apply G, ST.
      * rewrite ?upd_same in EI. cbn in EI.
        destruct (FI t tb img ET EI) as [G1 G2]. split; [exact G1|].
        destruct changed; [rewrite upd_same; cbn; discriminate|].
        intros ST. rewrite (HR eq_refl). apply G2, ST.
    + (* WAL off: the image, if any, stays *)
      destruct (FI t tb img ET EI) as [G1 G2]. split; [exact G1|].
      destruct changed; [rewrite upd_same; cbn; discriminate|].
      intros ST. rewrite (HR eq_refl). apply G2, ST.
  - intros tb0 _. exact (FS t tb ET).
Qed.

(* the same state change while the scanner flags stay as they are: only sound when the leaf did not change *)
Lemma Fresh_same_rows : forall b s t tb tb' n' changed,
  Fresh b s -> s_tab s t = Some tb -> t_rows tb' = t_rows tb ->
  Fresh b (mkS (upd (s_tab s) t (Some tb'))
               (phys_after (s_ph s) (s_wal s) (upd (s_tab s) t (Some tb')) (ETouch t changed false))
               n' (s_wal s) (s_walobj s || s_wal s)).
Proof.
  intros b s t tb tb' n' changed F ET HR.
  pose proof F as [FW FT FI FS FO FN].
  assert (s_walobj s || s_wal s = s_walobj s) as EO.
  { destruct (s_wal s) eqn:W; [rewrite (FO eq_refl); reflexivity | apply orb_false_r]. }
  apply (Fresh_frame b _ s _ t); cbn [s_tab s_ph s_wal s_walobj phys_after andb]; auto.
  - rewrite EO. exact FO.
  - rewrite EO. intros WO u. destruct (s_wal s) eqn:W; [rewrite (FO eq_refl) in WO; discriminate|]. now apply FN.
  - intros u NE. rewrite (upd_other _ _ _ _ _ NE). repeat split.
    destruct (s_wal s); [now rewrite upd_other | reflexivity].
  - rewrite upd_same. intros tb0 img E0 EI. inversion E0; subst tb0; clear E0. rewrite HR.
    destruct (s_wal s); [rewrite upd_same in EI; cbn in EI|]; exact (FI t tb img ET EI).
  - intros tb0 _. exact (FS t tb ET).
Qed.

(* nothing changed at all *)
Lemma Fresh_nochange : forall b s n', Fresh b s ->
  Fresh b (mkS (s_tab s) (s_ph s) n' (s_wal s) (s_walobj s || s_wal s)).
Proof.
  intros b s n' [FW FT FI FS FO FN].
  assert (s_walobj s || s_wal s = s_walobj s) as EO.
  { destruct (s_wal s) eqn:W; [rewrite (FO eq_refl); reflexivity | apply orb_false_r]. }
  constructor; cbn [s_tab s_ph s_wal s_walobj]; auto; rewrite EO; auto.
Qed.

Lemma pos_false_le : forall n, (0 <? n) = false -> n <= 0.
Proof. intros n H. apply Z.ltb_ge in H. exact H. Qed.

Lemma stmt_F : forall o b s,
  is_int o = false -> op_in_lang o = true -> Fresh b s ->
  Fresh (k2_step b o (snd (step s o))) (fst (step s o)).
Proof.
  intros o b s HI HL F. rewrite (step_stmt s o HI). cbn [fst snd].
  pose proof F as [FW FT FI FS FO FN].
  destruct o; cbn [is_int op_in_lang] in HI, HL; try discriminate; cbn [lstep k2_step].
  - (* Create *)
    apply andb_true_iff in HL. destruct HL as [HL _]. apply andb_true_iff in HL. destruct HL as [HS _].
    destruct (s_tab s t) as [tb|] eqn:ET; cbn [l_tab l_next l_wal l_obs l_eff phys_after is_err].
    + apply Fresh_nochange, F.
    + assert (s_walobj s || s_wal s = s_walobj s) as EO.
      { destruct (s_wal s) eqn:W; [rewrite (FO eq_refl); reflexivity | apply orb_false_r]. }
      apply (Fresh_frame b _ s _ t); cbn [s_tab s_ph s_wal s_walobj k_wal k_txn k_lg k_st]; auto;
        try (rewrite EO; exact FO);
        try (rewrite EO; intros WO u; unfold upd; destruct (u =? t); [reflexivity | now apply FN]);
        try (intros u NE; now rewrite !upd_other);
        try (rewrite ?upd_same; cbn; intros; discriminate).
  - (* DropT *)
    destruct (s_tab s t) as [tb|] eqn:ET; cbn [l_tab l_next l_wal l_obs l_eff phys_after is_err].
    + assert (s_walobj s || s_wal s = s_walobj s) as EO.
      { destruct (s_wal s) eqn:W; [rewrite (FO eq_refl); reflexivity | apply orb_false_r]. }
      apply (Fresh_frame b _ s _ t); cbn [s_tab s_ph s_wal s_walobj k_wal k_txn k_lg k_st]; auto;
        try (rewrite EO; exact FO);
        try (rewrite EO; exact FN);
        try (intros u NE; now rewrite !upd_other);
        try (rewrite ?upd_same; cbn; intros; discriminate).
    + apply Fresh_nochange, F.
  - (* Ins *)
    destruct (s_tab s t) as [tb|] eqn:ET; cbn [l_tab l_next l_wal l_obs l_eff is_err].
    + destruct (snd (do_insert tb (s_next s) vals)) eqn:OK; cbn [is_err].
      * apply (Fresh_touch b s t tb); auto. discriminate.
      * destruct vals as [|v1 [|v2 vs]].
        -- rewrite do_insert_nil_ok in OK. discriminate.
        -- apply (Fresh_same_rows b s t tb); auto. apply do_insert_one_fail_rows, OK.
        -- apply (Fresh_touch b s t tb); auto. discriminate.
    + (* no such table: nothing happens; the scanner may raise a flag for a table that is not there *)
      cbn [phys_after].
      assert (Fresh b (mkS (s_tab s) (s_ph s) (s_next s) (s_wal s) (s_walobj s || s_wal s))) as F0
        by (apply Fresh_nochange, F).
      destruct vals as [|v1 [|v2 vs]]; try exact F0.
      destruct F0 as [GW GT GI GS GO GN].
      constructor; cbn [s_tab s_ph s_wal s_walobj k2_touch k_wal k_txn k_lg k_st] in *; auto.
      intros u tb0 img E1 E2. rewrite andb_false_r.
      assert (u <> t) as NE by (intros ->; rewrite ET in E1; discriminate).
      rewrite upd_other by exact NE. eauto.
  - (* Del *)
    destruct (s_tab s t) as [tb|] eqn:ET; cbn [l_tab l_next l_wal l_obs l_eff is_err ok_pos fst snd do_delete].
    + apply (Fresh_touch b s t tb); auto.
      intros H. cbn [t_rows]. apply del_rows_none, pos_false_le, H.
    + cbn [phys_after]. apply Fresh_nochange, F.
  - (* Upd *)
    destruct (s_tab s t) as [tb|] eqn:ET; cbn [l_tab l_next l_wal l_obs l_eff is_err ok_pos fst snd do_update].
    + apply (Fresh_touch b s t tb); auto.
      intros H. cbn [t_rows]. apply upd_rows_none, pos_false_le, H.
    + cbn [phys_after]. apply Fresh_nochange, F.
  - (* SetWal *)
    cbn [l_tab l_next l_wal l_obs l_eff phys_after].
    constructor; cbn [s_tab s_ph s_wal s_walobj k_wal k_txn k_lg k_st]; auto.
    + intros ->. apply orb_true_r.
    + intros WO. apply orb_false_iff in WO. destruct WO as [WO _]. now apply FN.
  - (* Query *)
    cbn [l_tab l_next l_wal l_obs l_eff phys_after]. apply Fresh_nochange, F.
Qed.

(* ------------------------------------------------------------------ a replay of fresh images changes nothing *)
Lemma stale_none : forall b t, stale_any b = false -> slot_ok t = true -> k_lg b t && k_st b t = false.
Proof.
  intros b t H HS. unfold stale_any in H. unfold slot_ok in HS.
  apply existsb_exists in HS. destruct HS as [u [Hin E]]. apply Z.eqb_eq in E. subst u.
  destruct (k_lg b t && k_st b t) eqn:X; [|reflexivity].
  assert (existsb (fun t0 => k_lg b t0 && k_st b t0) slots = true) as Y
    by (apply existsb_exists; exists t; split; assumption).
  rewrite Y in H. discriminate.
Qed.

Lemma replay_id : forall b s, Fresh b s -> stale_any b = false ->
  forall t, replay_tab (s_tab s) (s_ph s) t = s_tab s t.
Proof.
  intros b s [FW FT FI FS FO FN] HS t. unfold replay_tab.
  destruct (s_tab s t) as [tb|] eqn:ET; [|reflexivity].
  destruct (p_img (s_ph s t)) as [img|] eqn:EI; [|reflexivity].
  destruct (FI t tb img ET EI) as [G1 G2].
  pose proof (stale_none b t HS (FS t tb ET)) as X. rewrite G1 in X. cbn in X.
  rewrite (G2 X). now rewrite ltbl_eta.
Qed.

(* ------------------------------------------------------------------ interruptions *)
Lemma Fresh_cleared : forall b s tab n wo r,
  Fresh b s -> (forall t, tab t = s_tab s t) -> (s_wal s = true -> wo = true) ->
  Fresh (k2_clear b r) (mkS tab (fun _ => no_phys) n (s_wal s) wo).
Proof.
  intros b s tab n wo r [FW FT FI FS FO FN] HT HO.
  constructor; cbn [s_tab s_ph s_wal s_walobj k_wal k_txn k_lg k_st k2_clear no_phys p_img]; auto.
  - intros; discriminate.
  - intros t tb E. rewrite HT in E. eauto.
Qed.

Lemma Fresh_session : forall b s, Fresh b s -> Fresh (k2_session b) s.
Proof. intros b s [FW FT FI FS FO FN]. constructor; cbn [k2_session k_wal k_txn k_lg k_st]; auto. Qed.

(* an interruption leaves every table of run A as it is *)
Lemma int_tabs : forall o b s,
  is_int o = true -> op_in_lang o = true -> Fresh b s ->
  k_c2 (k2_step b o (snd (step s o))) = false ->
  forall t, s_tab (fst (step s o)) t = s_tab s t.
Proof.
  intros o b s HI HL F HC t.
  destruct o; cbn [is_int op_in_lang] in HI, HL; try discriminate.
  - reflexivity.
  - cbn [step fst snd k2_step] in *.
    rewrite k2_session_c2, k2_clear_c2 in HC. apply orb_false_iff in HC. destruct HC as [_ HS]. cbn [andb] in HS.
    cbn [s_tab]. destruct (s_walobj s); [apply (replay_id b s F HS) | reflexivity].
  - reflexivity.
  - assert (snd (step s CkptPragma) = OOk 0) as EO by (cbn [step]; destruct (s_walobj s); reflexivity).
    rewrite EO in HC. cbn [k2_step] in HC.
    rewrite k2_clear_c2 in HC. apply orb_false_iff in HC. destruct HC as [_ HS]. cbn [andb] in HS.
    cbn [step]. destruct (s_walobj s); cbn [fst s_tab]; [apply (replay_id b s F HS) | reflexivity].
Qed.

Lemma bnd_ext : forall tab tab' n, (forall t, tab' t = tab t) -> bnd tab n -> bnd tab' n.
Proof. intros tab tab' n H B t tb E. rewrite H in E. now apply (B t). Qed.

Lemma restore_ext : forall tab tab', (forall t, tab' t = tab t) -> restore_next tab' = restore_next tab.
Proof.
  intros tab tab' H. unfold restore_next. f_equal.
  induction slots as [|a l IH]; cbn [fold_right]; [reflexivity|].
  unfold tab_max at 1 3. now rewrite H, IH.
Qed.

Lemma int_step : forall o b sA sB,
  is_int o = true -> op_in_lang o = true -> Lrel sA sB -> Fresh b sA ->
  k_c2 (k2_step b o (snd (step sA o))) = false ->
  snd (step sA o) = OOk 0
  /\ Lrel (fst (step sA o)) sB
  /\ Fresh (k2_step b o (snd (step sA o))) (fst (step sA o)).
Proof.
  intros o b sA sB HI HL L F HC.
  pose proof (int_tabs o b sA HI HL F HC) as TT.
  pose proof L as [HT HW BA BB]. pose proof F as [FW FT FI FS FO FN].
  assert (forall tab', (forall t, tab' t = s_tab sA t) -> bnd tab' (restore_next tab')) as RB.
  { intros tab' H. apply restore_bnd. intros t tb E. rewrite H in E. eauto. }
  destruct o; cbn [is_int op_in_lang] in HI, HL; try discriminate.
  - (* ReopenClose *)
    cbn [step fst snd k2_step] in *. split; [reflexivity|]. split.
    + constructor; cbn [s_tab s_wal s_next]; auto.
    + apply Fresh_session. apply (Fresh_cleared b sA); auto.
  - (* ReopenDrop *)
    cbn [step fst snd k2_step] in *. cbn [s_tab] in TT. split; [reflexivity|]. split.
    + constructor; cbn [s_tab s_wal s_next]; auto.
      intros t. rewrite TT. apply HT.
    + apply Fresh_session. apply (Fresh_cleared b sA); auto.
  - (* CkptApi *)
    cbn [step fst snd k2_step] in *. split; [reflexivity|]. split.
    + constructor; cbn [s_tab s_wal s_next]; auto.
    + apply (Fresh_cleared b sA); auto.
  - (* CkptPragma *)
    assert (snd (step sA CkptPragma) = OOk 0) as EO by (cbn [step]; destruct (s_walobj sA); reflexivity).
    rewrite EO in *. cbn [k2_step] in *.
    rewrite k2_clear_c2 in HC. apply orb_false_iff in HC. destruct HC as [_ HS]. cbn [andb] in HS.
    split; [reflexivity|]. revert TT. cbn [step]. destruct (s_walobj sA) eqn:WO; cbn [fst]; intros TT.
    + split.
      * constructor; cbn [s_tab s_wal s_next] in *; auto.
        -- intros t. rewrite TT. apply HT.
        -- apply (bnd_ext (s_tab sA)); assumption.
      * constructor; cbn [s_tab s_ph s_wal s_walobj k_wal k_txn k_lg k_st k2_clear drop_imgs p_img] in *; auto;
          try (intros; discriminate).
        intros t tb E. rewrite TT in E. eauto.
    + split; [exact L|].
      constructor; cbn [k_wal k_txn k_lg k_st k2_clear]; auto.
      * intros t tb img _ EI. rewrite (FN eq_refl t) in EI. discriminate.
      * intros W. rewrite WO. exact (FO W).
Qed.

(* ------------------------------------------------------------------ runs, unfolded one op at a time *)
Lemma run_true_cons : forall s o t, run true s (o :: t) = snd (step s o) :: run true (fst (step s o)) t.
Proof. intros. cbn [run negb]. now rewrite andb_false_r. Qed.
Lemma run_false_int : forall s o t, is_int o = true -> run false s (o :: t) = run false s t.
Proof. intros s o t H. cbn [run negb]. now rewrite H. Qed.
Lemma run_false_stmt : forall s o t, is_int o = false ->
  run false s (o :: t) = snd (step s o) :: run false (fst (step s o)) t.
Proof. intros s o t H. cbn [run negb]. now rewrite H. Qed.

(* ------------------------------------------------------------------ the simulation *)
Lemma sim : forall h b sA sB,
  forallb op_in_lang h = true -> Lrel sA sB -> Fresh b sA ->
  kclass (kscan b h (run true sA h)) = 0 ->
  oracle h (run true sA h) (run false sB h) = true.
Proof.
  induction h as [|o h IH]; intros b sA sB HL L F HK; [reflexivity|].
  cbn [forallb] in HL. apply andb_true_iff in HL. destruct HL as [HO HL].
  rewrite run_true_cons in *. cbn [kscan] in HK.
  pose proof (final_zero_now _ _ _ HK) as C2.
  destruct (is_int o) eqn:HI.
  - (* an interruption: only run A executes it *)
    rewrite (run_false_int sB o h HI).
    destruct (int_step o b sA sB HI HO L F C2) as (EO & L' & F').
    cbn [oracle]. rewrite HI, EO.
    rewrite EO in HK, F'. apply (IH _ _ _ HL L' F' HK).
  - (* a statement: both runs execute it *)
    rewrite (run_false_stmt sB o h HI).
    destruct (stmt_L o sA sB HI L) as (EO & L').
    pose proof (stmt_F o b sA HI HO F) as F'.
    cbn [oracle]. rewrite HI, <- EO.
    assert (obs_eqb (snd (step sA o)) (snd (step sA o)) = true) as R.
    { apply obs_eqb_refl. rewrite (step_stmt sA o HI). cbn [snd]. apply lstep_not_weird; assumption. }
    rewrite R. cbn [andb].
    apply (IH _ _ _ HL L' F' HK).
Qed.

(* the model satisfies the property outside the recorded class: for every history of the
   modelled language, from a new database, WAL on or off *)
Lemma persist_observational_id_l : forall wal h,
  in_lang h = true ->
  known_class_of wal h (run true (init wal) h) = 0 ->
  oracle h (run true (init wal) h) (run false (init wal) h) = true.
Proof.
  intros wal h HL HK. unfold in_lang in HL. unfold known_class_of in HK.
  apply (sim h (k2_init wal)); auto using init_Lrel, init_Fresh.
Qed.
