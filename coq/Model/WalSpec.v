(* C03: what the property demands, independent of how the implementation works, and the
   decidable classes of the recorded findings.  Definitions only.

   The abstract log is the list of frames written since the last truncate, per segment, in
   write order.  After a fault in segment k the longest valid prefix of the log is: all of
   the segments before k, then the frames of segment k in front of the first frame whose
   bytes the fault changed.  Recovery must apply exactly those frames, in order; after
   reopening, read_page must return the last image of each page among them. *)
From Coq Require Import ZArith List Bool.
From TV Require Import Model.Wal.
Import ListNotations.
Open Scope Z_scope.

(* ---------------------------------------------------------------- the abstract log *)
Definition lstep (l : list (list frame) * list frame) (o : op) : list (list frame) * list frame :=
  match o with
  | OWrite f => (fst l, snd l ++ [f])
  | OBatch fs _ => (fst l, snd l ++ fs)
  | ORotate => (fst l ++ [snd l], [])
  | OTruncate => ([], [])
  | _ => l
  end.
Definition lrun (ops : list op) : list (list frame) * list frame := fold_left lstep ops ([], []).
Definition log_of (ops : list op) : list (list frame) := fst (lrun ops) ++ [snd (lrun ops)].

(* number of leading frames of a segment of n written frames whose bytes the fault left intact *)
Fixpoint zero_intact (cnt : nat) (i off e i0 : Z) (vf vl : Z) : nat :=
  match cnt with
  | O => O
  | S c => if zcls i off e i0 vf vl =? 0 then S (zero_intact c (i + 1) off e i0 vf vl) else O
  end.

Definition intact (n : nat) (d : dmg) : nat :=
  let len := FRAME * Z.of_nat n in
  match d with
  | DNone => n
  | DCut _ off => if (0 <=? off) && (off <=? len) then Z.to_nat (off / FRAME) else n
  | DFlip _ off m =>
      if (0 <=? off) && (off <? len) && negb (m mod 256 =? 0) then Z.to_nat (off / FRAME) else n
  | DZero _ off k vf vl =>
      if (0 <=? off) && (off <? len) && (0 <? k)
      then zero_intact n 0 off (Z.min (off + k) len) (off / FRAME) vf vl else n
  end.

Definition is_dmg_seg (d : dmg) (i : nat) : bool :=
  match dmg_seg d with Some s => (0 <=? s) && (Z.to_nat s =? i)%nat | None => false end.

(* the longest valid prefix of the log, segment i onwards *)
Fixpoint vprefix (i : nat) (d : dmg) (log : list (list frame)) : list frame :=
  match log with
  | [] => []
  | seg :: t =>
      if is_dmg_seg d i && (intact (length seg) d <? length seg)%nat
      then firstn (intact (length seg) d) seg
      else seg ++ vprefix (S i) d t
  end.
Definition valid_prefix (log : list (list frame)) (d : dmg) : list frame := vprefix 0 d log.

(* ---------------------------------------------------------------- expected observations *)
Fixpoint last_image (fs : list frame) (k : key) (acc : rd) : rd :=
  match fs with
  | [] => acc
  | f :: t => last_image t k (if key_eqb k (fkey f) then RSome (f_fill f) else acc)
  end.
Definition expect_reads (fs : list frame) (keys : list key) : list rd :=
  map (fun k => last_image fs k RNone) keys.

(* last image written to page p (recover ignores file ids); a fresh page is zero *)
Fixpoint page_expect (fs : list frame) (p : Z) (acc : Z) : Z :=
  match fs with
  | [] => acc
  | f :: t => page_expect t p (if f_page f =? p then f_fill f else acc)
  end.
Fixpoint check_pages (fs : list frame) (i : Z) (pages : list Z) : bool :=
  match pages with
  | [] => true
  | v :: t => (v =? page_expect fs i 0) && check_pages fs (i + 1) t
  end.
(* exactly the frames fs were applied, in order: the count, every written page exists and holds
   its last image, every other page of the storage is still zero *)
Definition rec_ok (fs : list frame) (r : rec) : bool :=
  match r with
  | RecOk n pages =>
      (n =? Z.of_nat (length fs)) && forallb (fun f => f_page f <? Z.of_nat (length pages)) fs
      && check_pages fs 0 pages
  | _ => false
  end.

Definition rd_eqb (a b : rd) : bool :=
  match a, b with
  | RNone, RNone => true
  | RSome x, RSome y => x =? y
  | RErr, RErr => true
  | RPanic, RPanic => true
  | _, _ => false
  end.
Fixpoint rds_eqb (a b : list rd) : bool :=
  match a, b with
  | [], [] => true
  | x :: a', y :: b' => rd_eqb x y && rds_eqb a' b'
  | _, _ => false
  end.

Definition by_fid (fid : Z) (fs : list frame) : list frame := filter (fun f => f_fid f =? fid) fs.

(* the property, on the observations of one case (live reads are not part of the statement) *)
Definition spec_check (ops : list op) (d : dmg) (o : obs) : bool :=
  let vp := valid_prefix (log_of ops) d in
  o_ok o && rds_eqb (o_reads o) (expect_reads vp read_keys)
  && rec_ok vp (o_rec o) && rec_ok (by_fid 0 vp) (o_rec0 o) && rec_ok (by_fid 1 vp) (o_rec1 o).

(* ---------------------------------------------------------------- finding classes *)
(* counters of the writer: OS cursor, logical offset, frames in the BufWriter, file length (frames) *)
Record trk := Trk { t_cur : nat; t_off : nat; t_pend : nat; t_flen : nat; t_sync : bool; t_why : Z }.

Definition trk_flush (t : trk) : trk :=
  match t_pend t with
  | O => t
  | _ => Trk (t_cur t + t_pend t) (t_off t) 0 (Nat.max (t_flen t) (t_cur t + t_pend t)) (t_sync t) (t_why t)
  end.
Definition trk_write (t : trk) (n : nat) (do_sync : bool) : trk :=
  let t1 := Trk (t_cur t) (t_off t + n) (t_pend t + n) (t_flen t) (t_sync t) (t_why t) in
  if do_sync then trk_flush t1 else t1.

Definition op_frames (o : op) : nat :=
  match o with OWrite _ => 1%nat | OBatch fs _ => length fs | _ => O end.

(* class raised by executing o in counter state t (0 = none):
   1  a frame is written while the OS cursor is not at the logical offset, after Wal::open of a
      non-empty segment (open seeks to 0 but sets offset = len): earlier frames are overwritten;
   2  the same after truncate (set_len(0) leaves the cursor where it was): a hole of zeros;
   3  truncate while frames sit in the BufWriter (set_len(0) runs before the flush): the
      truncated frames come back. *)
Definition op_class (t : trk) (o : op) : Z :=
  match o with
  | OTruncate => if (0 <? t_pend t)%nat then 3 else 0
  | _ => if (0 <? op_frames o)%nat && negb (t_cur t + t_pend t =? t_off t)%nat
         then (if t_why t =? 2 then 2 else 1) else 0
  end.

Definition trk_step (t : trk) (o : op) : trk :=
  match o with
  | OWrite _ => trk_write t 1 (t_sync t)
  | OBatch fs nosync => trk_write t (length fs) (negb nosync && t_sync t && negb (is_nil fs))
  | OSetSync b => Trk (t_cur t) (t_off t) (t_pend t) (t_flen t) b (t_why t)
  | OSync => trk_flush t
  | ORotate => Trk 0 0 0 0 (t_sync t) 0
  | OTruncate => Trk (t_cur t) 0 (t_pend t) 0 (t_sync t) (if (t_cur t =? 0)%nat then t_why t else 2)
  | OReopen =>
      let t1 := trk_flush t in
      Trk 0 (t_flen t1) 0 (t_flen t1) true (if (t_flen t1 =? 0)%nat then t_why t1 else 1)
  end.

Fixpoint known_from (t : trk) (ops : list op) : Z :=
  match ops with
  | [] => 0
  | o :: r => if op_class t o =? 0 then known_from (trk_step t o) r else op_class t o
  end.
Definition trk0 : trk := Trk 0 0 0 0 true 0.
Definition known_ops (ops : list op) : Z := known_from trk0 ops.

Definition nonempty_after (i : nat) (log : list (list frame)) : bool :=
  existsb (fun g => negb (is_nil g)) (skipn (S i) log).

(* is the first frame the fault invalidates a slot the fault filled with zeros entirely? *)
Definition first_hit_zeroed (n : nat) (d : dmg) : bool :=
  match d with
  | DZero _ off k vf vl =>
      let len := FRAME * Z.of_nat n in
      (0 <=? off) && (off <? len) && (0 <? k)
      && (zcls (Z.of_nat (intact n d)) off (Z.min (off + k) len) (off / FRAME) vf vl =? 1)
  | _ => false
  end.

(*  4  a fault invalidates a frame of a segment that is not the last one and a later segment
       holds frames: recover stops in that segment but goes on with the next ones;
    6  the first frame the fault destroys is overwritten with zeros entirely: an all-zero slot
       passes validate_checksum (CRC-64/ECMA-182 of zeros is 0), so it is replayed as a frame
       for page 0 of file 0 and the scan goes on behind it. *)
Definition dmg_class (log : list (list frame)) (d : dmg) : Z :=
  match dmg_seg d with
  | None => 0
  | Some s =>
      if (0 <=? s) then
        match nth_error log (Z.to_nat s) with
        | None => 0
        | Some seg =>
            if (intact (length seg) d <? length seg)%nat then
              if nonempty_after (Z.to_nat s) log then 4
              else if first_hit_zeroed (length seg) d then 6 else 0
            else 0
        end
      else 0
  end.

(*  5  Wal::open indexes only the latest segment: after reopening, read_page does not find
       pages whose last valid image lives in an older segment. *)
Definition frames_before_last (log : list (list frame)) : nat := length (concat (removelast log)).
Definition read_class (log : list (list frame)) (vp : list frame) : Z :=
  if (1 <? length log)%nat
     && negb (rds_eqb (expect_reads (skipn (frames_before_last log) vp) read_keys) (expect_reads vp read_keys))
  then 5 else 0.

Definition known_case (ops : list op) (d : dmg) : Z :=
  let log := log_of ops in
  if negb (known_ops ops =? 0) then known_ops ops
  else if negb (dmg_class log d =? 0) then dmg_class log d
  else read_class log (valid_prefix log d).

(* the frames the API accepts: u32 page numbers below u32::MAX (page_no + 1 must not overflow) *)
Definition frame_ok (f : frame) : bool := (0 <=? f_page f) && (f_page f <? U32_MAX) && (0 <=? f_dbs f).
Definition op_ok (o : op) : bool :=
  match o with OWrite f => frame_ok f | OBatch fs _ => forallb frame_ok fs | _ => true end.
Definition ops_ok (ops : list op) : bool := forallb op_ok ops.
