(* C05 correspondence: judge what the harness observed on the real Database against
   (a) the implementation model Model/Tombstone.v with fx = false (model_agrees, in
       Model/DmlCase.v) and
   (b) the relational reference model Model/DmlSpec.v, i.e. the property itself (spec_ok).
   Evaluated by vm_compute; definitions only. *)
From Coq Require Import ZArith List Bool.
From TV Require Export Model.DmlCase.
Import ListNotations.
Open Scope Z_scope.

(* The property: after every statement the result (affected rows, RETURNING rows as a bag, or
   an error), the table as a bag and COUNT star are what the reference predicts.  The reference
   state is carried forward (not the observed one).  Where the reference does not say
   (spec_step = None) nothing is demanded from there on. *)
Fixpoint spec_go (sch : schema) (dict : list row) (t : table) (steps : list (stmt * hobs)) : bool :=
  match steps with
  | [] => true
  | (s, o) :: rest =>
      match spec_step sch t s with
      | None => true
      | Some (r, t') => obs_matches dict (mkObs r t' (zlen t')) o && spec_go sch dict t' rest
      end
  end.
Definition spec_ok (c : case) : bool :=
  match c with Hist sch dict steps => spec_go sch dict [] steps end.

(* the recorded finding class of the history (Model/Tombstone.v hist_class); 0 = none *)
Definition known_class (c : case) : Z := case_class c.

Fixpoint failures_from (i : Z) (cs : list case) : list (Z * bool * bool * Z) :=
  match cs with
  | [] => []
  | c :: t =>
      let m := model_agrees c in
      let s := spec_ok c in
      if m && s then failures_from (i + 1) t else (i, m, s, known_class c) :: failures_from (i + 1) t
  end.
Definition failures := failures_from 0.
