(* C15 proofs: the checker used on the implementation's rows decides the property, for the
   instance "evaluated key list + output row" (Model/SortSpec.v result_chk / result_spec). *)
From Coq Require Import ZArith List Bool Arith Lia Permutation Sorted.
From TV Require Import Model.KnnOrder Proof.KnnOrder.
From TV Require Import Model.SqlSpec Model.SortSpec Proof.SqlSpecLaws Proof.SortOrder Proof.SortWindow.
Import ListNotations.

Lemma value_eqb_spec : forall a b, value_eqb a b = true <-> a = b.
Proof.
  intros a b. destruct a as [|x|x|x|x], b as [|y|y|y|y]; cbn [value_eqb]; split; intros H;
    try discriminate; try reflexivity.
  - apply Z.eqb_eq in H. congruence.
  - inversion H. apply Z.eqb_refl.
  - apply Z.eqb_eq in H. congruence.
  - inversion H. apply Z.eqb_refl.
  - apply zlist_eqb'_eq in H. congruence.
  - inversion H. apply zlist_eqb'_eq. reflexivity.
  - apply Bool.eqb_prop in H. congruence.
  - inversion H. apply Bool.eqb_reflx.
Qed.

Lemma row_eqb_spec : forall a b, row_eqb a b = true <-> a = b.
Proof.
  induction a as [|x a IH]; intros [|y b]; cbn [row_eqb]; split; intros H; try discriminate; try reflexivity.
  - apply andb_prop in H. destruct H as [H1 H2]. apply value_eqb_spec in H1. apply IH in H2. congruence.
  - inversion H; subst. apply andb_true_intro. split; [apply value_eqb_spec|apply IH]; reflexivity.
Qed.

(* the checker decides the property wherever the property makes a demand *)
Theorem result_chk_iff_spec_l : forall dirs distinct B o l rows,
  result_defined dirs distinct B = true ->
  (result_chk dirs distinct B o l rows = true <-> result_spec dirs distinct B o l rows).
Proof.
  intros dirs distinct B o l rows Hd. unfold result_defined in Hd. apply andb_prop in Hd.
  destruct Hd as [_ Hg]. unfold result_chk, result_spec. split.
  - apply rows_chk_sound_l; [apply elt_cmp_preorder_l|exact row_eqb_spec].
  - apply rows_chk_complete_l; [apply elt_cmp_preorder_l|exact row_eqb_spec|exact Hg].
Qed.

(* soundness needs no side condition at all: whatever the checker accepts is right *)
Theorem result_chk_sound_l : forall dirs distinct B o l rows,
  result_chk dirs distinct B o l rows = true -> result_spec dirs distinct B o l rows.
Proof.
  intros. unfold result_chk, result_spec in *.
  eapply rows_chk_sound_l; eauto; [apply elt_cmp_preorder_l|exact row_eqb_spec].
Qed.

(* ORDER BY alone: what is accepted is exactly a permutation of the selected rows that is
   sorted by the keys *)
Theorem order_by_chk_l : forall dirs B rows,
  result_chk dirs false B 0 None rows = true ->
  exists S, Permutation S (map norm_elt B) /\ sorted_by (elt_cmp dirs) S /\ map norm_row rows = map snd S.
Proof.
  intros dirs B rows H. unfold result_chk in H.
  eapply full_sort_chk_l in H; eauto; [apply elt_cmp_preorder_l|exact row_eqb_spec].
Qed.
