(* C21: the implementation model of schema changes (Model/AlterImpl.v) simulates the relational
   model (Model/DdlSpec.v) on every history outside the recorded defect classes. *)
From Coq Require Import ZArith List Bool Lia.
From TV Require Import Model.DdlSpec Model.AlterImpl.
Import ListNotations.
Open Scope Z_scope.

(* ------------------------------------------------------------------ association lists *)
Definition mapv {A B} (f : A -> B) (l : list (Z * A)) : list (Z * B) :=
  map (fun p => (fst p, f (snd p))) l.

Lemma get_mapv : forall A B (f : A -> B) k l, get k (mapv f l) = option_map f (get k l).
Proof.
  intros A B f k l. induction l as [|[k' v] l IH]; [reflexivity|].
  cbn [mapv map get fst snd]. destruct (k' =? k); [reflexivity|]. exact IH.
Qed.
Lemma put_mapv : forall A B (f : A -> B) k v l, put k (f v) (mapv f l) = mapv f (put k v l).
Proof.
  intros A B f k v l. induction l as [|[k' v'] l IH]; [reflexivity|].
  cbn [mapv map put fst snd]. destruct (k' =? k); [reflexivity|].
  cbn [map fst snd]. f_equal. exact IH.
Qed.
Lemma del_mapv : forall A B (f : A -> B) k l, del k (mapv f l) = mapv f (del k l).
Proof.
  intros A B f k l. induction l as [|[k' v'] l IH]; [reflexivity|].
  cbn [mapv map del fst snd]. destruct (k' =? k); [reflexivity|].
  cbn [map fst snd]. f_equal. exact IH.
Qed.
Lemma mapv_app : forall A B (f : A -> B) l1 l2, mapv f (l1 ++ l2) = mapv f l1 ++ mapv f l2.
Proof. intros. unfold mapv. apply map_app. Qed.

(* ------------------------------------------------------------------ abstraction *)
Definition abs_tbl (tb : itbl) : stbl := mkS (icols tb) (live (irows tb)).
Definition abs (s : istate) : sstate := mkSS (mapv abs_tbl (itabs s)) (iidx s).

(* what a scan shows is what the abstract table holds *)
Lemma obs1_abs : forall s t, i_obs1 s t = s_obs1 (abs s) t.
Proof.
  intros s t. unfold i_obs1, s_obs1, abs. cbn [stabs]. rewrite get_mapv.
  destruct (get t (itabs s)) as [tb|]; reflexivity.
Qed.
Lemma obs_abs : forall s, i_obs s = s_obs (abs s).
Proof.
  intros s. unfold i_obs, s_obs. apply map_ext. intro t. apply obs1_abs.
Qed.

(* ------------------------------------------------------------------ stored rows vs live rows *)
Lemma live_app : forall rs r, live (rs ++ [(false, r)]) = live rs ++ [r].
Proof.
  intros rs r. unfold live. rewrite filter_app, map_app. reflexivity.
Qed.
Lemma live_delete : forall (m : row -> bool) rs,
  live (map (fun p : srow => if negb (fst p) && m (snd p) then (true, snd p) else p) rs)
  = filter (fun r => negb (m r)) (live rs).
Proof.
  intros m rs. unfold live. induction rs as [|[d r] rs IH]; [reflexivity|].
  cbn [map filter fst snd]. destruct d; cbn [negb andb fst snd map filter].
  - exact IH.
  - destruct (m r); cbn [negb fst snd map filter]; [exact IH|]. f_equal. exact IH.
Qed.
Lemma live_delete_all : forall rs, live (map (fun p : srow => (true, snd p)) rs) = [].
Proof.
  intros rs. unfold live. induction rs as [|[d r] rs IH]; [reflexivity|].
  cbn [map filter fst snd negb]. exact IH.
Qed.
Lemma live_update : forall (m : row -> bool) (g : row -> row) rs,
  live (map (fun p : srow => if negb (fst p) && m (snd p) then (false, g (snd p)) else p) rs)
  = map (fun r => if m r then g r else r) (live rs).
Proof.
  intros m g rs. unfold live. induction rs as [|[d r] rs IH]; [reflexivity|].
  cbn [map filter fst snd]. destruct d; cbn [negb andb fst snd map filter].
  - exact IH.
  - destruct (m r); cbn [map filter fst snd negb]; f_equal; exact IH.
Qed.
Lemma live_map_all : forall (g : row -> row) rs,
  live (map (fun p : srow => if negb (fst p) then (false, g (snd p)) else p) rs) = map g (live rs).
Proof.
  intros g rs. unfold live. induction rs as [|[d r] rs IH]; [reflexivity|].
  cbn [map filter fst snd]. destruct d; cbn [negb fst snd map filter]; [exact IH|]. f_equal. exact IH.
Qed.
Lemma live_pad : forall (g : row -> row) rs,
  live (map (fun p : srow => (fst p, g (snd p))) rs) = map g (live rs).
Proof.
  intros g rs. unfold live. induction rs as [|[d r] rs IH]; [reflexivity|].
  cbn [map filter fst snd]. destruct d; cbn [negb map filter fst snd]; [exact IH|]. f_equal. exact IH.
Qed.

Lemma val_eqb_VN : forall v, val_eqb v VN = true -> v = VN.
Proof. intros v H. destruct v; cbn in H; try discriminate. reflexivity. Qed.

(* ------------------------------------------------------------------ statements on one table *)
Lemma stabs_abs : forall s, stabs (abs s) = mapv abs_tbl (itabs s).
Proof. reflexivity. Qed.
Lemma sidx_abs : forall s, sidx (abs s) = iidx s.
Proof. reflexivity. Qed.

Lemma on_sim : forall t fi fs s,
  (forall tb, get t (itabs s) = Some tb -> option_map abs_tbl (fi tb) = fs (abs_tbl tb)) ->
  s_on t fs (abs s) = (abs (fst (i_on t fi s)), snd (i_on t fi s)).
Proof.
  intros t fi fs s H. unfold s_on, i_on. rewrite stabs_abs, get_mapv.
  destruct (get t (itabs s)) as [tb|] eqn:Hg; cbn [option_map]; [|reflexivity].
  specialize (H tb eq_refl). rewrite <- H.
  destruct (fi tb) as [tb'|]; cbn [option_map fst snd]; [|reflexivity].
  rewrite put_mapv. reflexivity.
Qed.
Lemma tbl_of_get : forall s t tb, get t (itabs s) = Some tb -> tbl_of s t = tb.
Proof. intros s t tb H. unfold tbl_of. rewrite H. reflexivity. Qed.
Lemma get_put_same : forall A (l : list (Z * A)) t v0 v, get t l = Some v0 -> get t (put t v l) = Some v.
Proof.
  induction l as [|[k x] l IH]; intros t v0 v H0; [discriminate|].
  cbn [get put] in *. destruct (k =? t) eqn:E; cbn [get]; rewrite E; [reflexivity|]. eapply IH; eassumption.
Qed.

(* one statement outside the defect classes: same status, and the abstraction commutes *)
Lemma step_sim : forall s st, step_class s st = 0 ->
  s_step (abs s) st = (abs (fst (i_step s st)), snd (i_step s st)).
Proof.
  intros s st Hk. destruct st as [t cs|t|t r|t c v|t c v|t|t sc sv wc wv|t sc sv|t c|t c ex|t c n|t rs|i t c|i|];
    cbn [s_step i_step].
  - (* CreateTable *)
    rewrite stabs_abs, get_mapv.
    destruct (get t (itabs s)); cbn [option_map]; [reflexivity|].
    destruct cs as [|c0 cs]; [reflexivity|].
    destruct (nodup_names (c0 :: cs) && forallb (fun c => fits (cty c) (cdef c)) (c0 :: cs)); [|reflexivity].
    cbn [fst snd]. unfold abs. cbn [itabs iidx stabs sidx]. rewrite mapv_app. reflexivity.
  - (* DropTable *)
    rewrite stabs_abs, get_mapv.
    destruct (get t (itabs s)); cbn [option_map fst snd]; [|reflexivity].
    unfold abs. cbn [itabs iidx stabs sidx]. rewrite del_mapv. reflexivity.
  - (* Insert *)
    apply on_sim. intros tb Hg. unfold i_insert, s_insert, abs_tbl. cbn [cols rows].
    destruct (fits_row (icols tb) r); [|reflexivity]. cbn [option_map icols irows]. rewrite live_app. reflexivity.
  - (* InsertOne *)
    apply on_sim. intros tb Hg. unfold i_insert_one, s_insert_one, abs_tbl. cbn [cols rows].
    destruct (find_col c (icols tb)) as [i|]; [|reflexivity].
    destruct (fits (col_ty i (icols tb)) v); [|reflexivity]. cbn [option_map icols irows]. rewrite live_app. reflexivity.
  - (* DeleteEq *)
    apply on_sim. intros tb Hg. unfold i_delete_eq, s_delete_eq, abs_tbl. cbn [cols rows].
    destruct (find_col c (icols tb)) as [i|]; [|reflexivity].
    cbn [option_map icols irows]. rewrite (live_delete (cell_matches i v)). reflexivity.
  - (* DeleteAll *)
    apply on_sim. intros tb Hg. unfold i_delete_all, abs_tbl. cbn [option_map cols rows icols irows].
    rewrite live_delete_all. reflexivity.
  - (* UpdateEq *)
    apply on_sim. intros tb Hg.
    unfold i_update_eq, s_update_eq, abs_tbl. cbn [cols rows].
    destruct (find_col sc (icols tb)) as [i|]; [|reflexivity].
    destruct (find_col wc (icols tb)) as [j|]; [|reflexivity].
    destruct (fits (col_ty i (icols tb)) sv); [|reflexivity].
    cbn [option_map icols irows]. apply f_equal. apply f_equal.
    exact (live_update (cell_matches j wv) (set_nth i sv) _).
  - (* UpdateAll *)
    apply on_sim. intros tb Hg.
    unfold i_update_all, s_update_all, abs_tbl. cbn [cols rows].
    destruct (find_col sc (icols tb)) as [i|]; [|reflexivity].
    destruct (fits (col_ty i (icols tb)) sv); [|reflexivity].
    cbn [option_map icols irows]. apply f_equal. apply f_equal. exact (live_map_all (set_nth i sv) _).
  - (* AddCol *)
    apply on_sim. intros tb Hg. cbn [step_class] in Hk. rewrite (tbl_of_get _ _ _ Hg) in Hk.
    unfold i_add_col, s_add_col, abs_tbl. cbn [cols rows].
    revert Hk. destruct (has_col (cname c) (icols tb)); intro Hk; [reflexivity|]. cbn [orb negb andb] in *.
    destruct (negb (fits (cty c) (cdef c))); [reflexivity|].
    cbn [option_map icols irows]. apply f_equal. apply f_equal.
    etransitivity; [exact (live_pad (fun r => r ++ [VN]) (irows tb))|].
    revert Hk. destruct (val_eqb (cdef c) VN) eqn:Hd; intro Hk.
    + rewrite (val_eqb_VN _ Hd). reflexivity.
    + cbn [negb andb] in Hk. revert Hk. destruct (live (irows tb)); intro Hk; [reflexivity|discriminate].
  - (* DropCol *)
    assert (Hon : s_on t (s_drop_col c) (abs s)
                  = (abs (fst (i_on t (i_drop_col c ex) s)), snd (i_on t (i_drop_col c ex) s))).
    { apply on_sim. intros tb Hg.
      unfold i_drop_col, s_drop_col, abs_tbl. cbn [cols rows].
      destruct (find_col c (icols tb)) as [i|]; [|reflexivity].
      destruct (length (icols tb) <=? 1)%nat; [reflexivity|].
      cbn [option_map icols irows]. apply f_equal. apply f_equal. exact (live_pad (remove_nth i) (irows tb)). }
    rewrite Hon. destruct (i_on t (i_drop_col c ex) s) as [s' ok]. cbn [fst snd].
    destruct ok; reflexivity.
  - (* RenameCol *)
    cbn [step_class] in Hk.
    assert (Hon : s_on t (s_rename_col c n) (abs s)
                  = (abs (fst (i_on t (i_rename_col c n) s)), snd (i_on t (i_rename_col c n) s))).
    { apply on_sim. intros tb Hg.
      unfold i_rename_col, s_rename_col, abs_tbl. cbn [cols rows].
      destruct (find_col c (icols tb)) as [i|]; [|reflexivity].
      destruct (has_col n (icols tb)); reflexivity. }
    rewrite Hon. unfold i_on.
    destruct (get t (itabs s)) as [tb|] eqn:Hg; [|reflexivity].
    rewrite (tbl_of_get _ _ _ Hg) in Hk.
    unfold i_rename_col. unfold has_col at 1 in Hk.
    revert Hk. destruct (find_col c (icols tb)) as [i|]; intro Hk; [|reflexivity].
    revert Hk. destruct (has_col n (icols tb)); intro Hk; [reflexivity|]. cbn [negb andb] in Hk.
    assert (He : existsb (idx_on t c) (iidx s) = false).
    { revert Hk. destruct (existsb (idx_on t c) (iidx s)); intro Hk; [discriminate|reflexivity]. }
    cbn [fst snd]. unfold abs. cbn [stabs sidx itabs iidx]. f_equal. f_equal.
    clear - He. induction (iidx s) as [|e l IH]; [reflexivity|].
    cbn [existsb] in He. apply orb_false_iff in He. destruct He as [He1 He2].
    cbn [map]. rewrite He1. f_equal. exact (IH He2).
  - (* Truncate *)
    apply on_sim. intros tb Hg. reflexivity.
  - (* CreateIndex *)
    cbn [step_class] in Hk. rewrite stabs_abs, sidx_abs, get_mapv.
    revert Hk. destruct (get t (itabs s)) as [tb|]; intro Hk; cbn [option_map]; [|reflexivity].
    unfold abs_tbl at 1. cbn [cols].
    revert Hk. destruct (has_idx i (iidx s)); intro Hk; [reflexivity|]. cbn [negb andb orb] in *.
    revert Hk. destruct (in_files i (ifiles s)); intro Hk; [discriminate|].
    revert Hk. destruct (has_col c (icols tb)); intro Hk; [|discriminate]. reflexivity.
  - (* DropIndex *)
    rewrite sidx_abs. destruct (has_idx i (iidx s)); reflexivity.
  - reflexivity.
Qed.

(* ------------------------------------------------------------------ histories *)
Theorem hist_sim : forall h s, hist_class s h = 0 -> i_run s h = s_run (abs s) h.
Proof.
  induction h as [|st h IH]; intros s Hk; [reflexivity|].
  cbn [hist_class] in Hk.
  assert (Hs : step_class s st = 0).
  { revert Hk. destruct (step_class s st =? 0) eqn:E; intro Hk; [apply Z.eqb_eq; exact E|].
    apply Z.eqb_neq in E. contradiction. }
  rewrite Hs in Hk. cbn [Z.eqb] in Hk.
  cbn [i_run s_run]. rewrite (step_sim s st Hs).
  destruct (i_step s st) as [s' ok]. cbn [fst snd] in *.
  rewrite (obs_abs s'). f_equal. apply IH; assumption.
Qed.

Lemma hist_correct_l : forall h, hist_class i_empty h = 0 -> i_run i_empty h = s_run s_empty h.
Proof. intros h Hk. exact (hist_sim h i_empty Hk). Qed.

(* ------------------------------------------------------------------ the clauses of the property,
   for every table content, directly on the implementation model *)
Lemma add_column_reads_default_l : forall s t tb c,
  get t (itabs s) = Some tb -> has_col (cname c) (icols tb) = false -> fits (cty c) (cdef c) = true ->
  (cdef c = VN \/ live (irows tb) = []) ->
  i_obs1 (fst (i_step s (AddCol t c))) t
  = TRows (map cname (icols tb) ++ [cname c]) (map (fun r => r ++ [cdef c]) (live (irows tb))).
Proof.
  intros s t tb c Hg Hn Hf Hd. cbn [i_step]. unfold i_on. rewrite Hg. unfold i_add_col. rewrite Hn, Hf.
  cbn [negb orb fst]. unfold i_obs1. cbn [itabs]. rewrite (get_put_same _ _ _ _ _ Hg). cbn [icols irows].
  rewrite map_app. cbn [map]. apply f_equal.
  etransitivity; [exact (live_pad (fun r => r ++ [VN]) (irows tb))|].
  destruct Hd as [Hd|Hd]; rewrite Hd; reflexivity.
Qed.

(* inside class 1 the existing rows read NULL whatever the DEFAULT *)
Lemma add_column_reads_null_l : forall s t tb c,
  get t (itabs s) = Some tb -> has_col (cname c) (icols tb) = false -> fits (cty c) (cdef c) = true ->
  i_obs1 (fst (i_step s (AddCol t c))) t
  = TRows (map cname (icols tb) ++ [cname c]) (map (fun r => r ++ [VN]) (live (irows tb))).
Proof.
  intros s t tb c Hg Hn Hf. cbn [i_step]. unfold i_on. rewrite Hg. unfold i_add_col. rewrite Hn, Hf.
  cbn [negb orb fst]. unfold i_obs1. cbn [itabs]. rewrite (get_put_same _ _ _ _ _ Hg). cbn [icols irows].
  rewrite map_app. cbn [map]. apply f_equal.
  exact (live_pad (fun r => r ++ [VN]) (irows tb)).
Qed.

(* DROP COLUMN, however the name is spelled and whatever deleted rows are stored *)
Lemma drop_column_preserves_others_l : forall s t tb c i ex,
  get t (itabs s) = Some tb -> find_col c (icols tb) = Some i -> (1 < length (icols tb))%nat ->
  i_obs1 (fst (i_step s (DropCol t c ex))) t
  = TRows (map cname (remove_nth i (icols tb))) (map (remove_nth i) (live (irows tb))).
Proof.
  intros s t tb c i ex Hg Hf Hl. cbn [i_step]. unfold i_on. rewrite Hg. unfold i_drop_col. rewrite Hf.
  destruct (length (icols tb) <=? 1)%nat eqn:E; [apply Nat.leb_le in E; lia|].
  cbn [fst]. unfold i_obs1. cbn [itabs]. rewrite (get_put_same _ _ _ _ _ Hg). cbn [icols irows].
  apply f_equal. exact (live_pad (remove_nth i) (irows tb)).
Qed.

(* the stored tombstones stay tombstones: a later DROP COLUMN cannot show them either *)
Lemma drop_column_keeps_delete_bits_l : forall c ex tb tb',
  i_drop_col c ex tb = Some tb' -> map fst (irows tb') = map fst (irows tb).
Proof.
  intros c ex tb tb' H. unfold i_drop_col in H.
  destruct (find_col c (icols tb)); [|discriminate].
  destruct (length (icols tb) <=? 1)%nat; [discriminate|].
  inversion H; subst. cbn [irows]. rewrite map_map. reflexivity.
Qed.

Lemma rename_preserves_values_l : forall s t tb c n i,
  get t (itabs s) = Some tb -> find_col c (icols tb) = Some i -> has_col n (icols tb) = false ->
  i_obs1 (fst (i_step s (RenameCol t c n))) t
  = TRows (map cname (rename_at i n (icols tb))) (live (irows tb)).
Proof.
  intros s t tb c n i Hg Hf Hn. cbn [i_step]. unfold i_on. rewrite Hg. unfold i_rename_col. rewrite Hf, Hn.
  cbn [fst]. unfold i_obs1. cbn [itabs]. rewrite (get_put_same _ _ _ _ _ Hg). cbn [icols irows].
  reflexivity.
Qed.

Lemma truncate_then_insert_visible_l : forall s t tb b r,
  get t (itabs s) = Some tb -> fits_row (icols tb) r = true ->
  i_obs1 (fst (i_step s (Truncate t b))) t = TRows (map cname (icols tb)) [] /\
  i_obs1 (fst (i_step (fst (i_step s (Truncate t b))) (Insert t r))) t = TRows (map cname (icols tb)) [r].
Proof.
  intros s t tb b r Hg Hf.
  assert (E1 : fst (i_step s (Truncate t b)) = mkIS (put t (mkI (icols tb) [] false) (itabs s)) (iidx s) (ifiles s)).
  { cbn [i_step]. unfold i_on. rewrite Hg. reflexivity. }
  rewrite E1.
  pose proof (get_put_same _ _ t tb (mkI (icols tb) [] false) Hg) as Hg2.
  split.
  - unfold i_obs1. cbn [itabs]. rewrite Hg2. cbn [icols irows]. reflexivity.
  - cbn [i_step]. unfold i_on. cbn [itabs]. rewrite Hg2. unfold i_insert. cbn [icols irows ishort]. rewrite Hf. cbn [fst].
    unfold i_obs1. cbn [itabs]. rewrite (get_put_same _ _ _ _ _ Hg2). cbn [icols irows app].
    reflexivity.
Qed.

(* the statements whose defects were repaired now behave as the relational model says:
   they belong to no class *)
Lemma former_classes_repaired_l : forall s t c ex n sc sv wc wv,
  step_class s (DropCol t c ex) = 0 /\
  step_class s (AddCol t (mkCol c 0 VN)) = 0 /\
  (existsb (idx_on t c) (iidx s) = false -> step_class s (RenameCol t c n) = 0) /\
  (ishort (tbl_of s t) = false -> step_class s (UpdateEq t sc sv wc wv) = 0 /\ step_class s (UpdateAll t sc sv) = 0).
Proof.
  intros. repeat split.
  - cbn [step_class cname cdef val_eqb negb andb]. rewrite andb_false_r. reflexivity.
  - intro He. cbn [step_class]. rewrite He, andb_false_r. reflexivity.
  - cbn [step_class]. rewrite H. reflexivity.
  - cbn [step_class]. rewrite H. reflexivity.
Qed.

(* reopening leaves every table as it was (by definition of the model: the correspondence run
   is what ties this to the catalogue and table files) *)
Lemma reopen_identity_l : forall s, i_step s Reopen = (s, true).
Proof. reflexivity. Qed.
