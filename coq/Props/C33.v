(* C33 - Spilled rows round-trip through the spill format.
   Property theorems only.  Model: Model/RowSerde.v (hand-written; the 25 discriminants are the
   regenerated Gen/RowSerde.v).  Proofs: Proof/RowSerde.v, Proof/SubquerySpill.v.

   row_wf / value_wf = the Rust types of the fields (value_typed) plus the format's own limits
   (column count < 2^16, byte / element counts < 2^32).  row_same = same variants, equal
   contents (floats: same bits, or both NaN).
   History: finding F-C33-1 (Float(+-0.0) was written as the ZERO discriminant and read back as
   Int 0) was fixed by /repo commit d11dc56; the model follows the repaired writer and the
   theorems below hold for all well-formed rows, zero floats included (zero_float_regression). *)
From Coq Require Import ZArith List Bool.
From Flocq Require Import IEEE754.Binary IEEE754.Bits.
From TV Require Import Lib.MachInt Gen.RowSerde Model.RowSerde Proof.RowSerde Proof.SubquerySpill Proof.RowSerdeFloat.
Import ListNotations.
Open Scope Z_scope.

(* what deserialize returns on a serialized row followed by anything, for EVERY well-formed row:
   the row itself up to canon_value (NaN -> canonical NaN, else identity) *)
Theorem row_serde_behaviour :
  forall row rest, row_wf row = true ->
    deser_row (ser_row row ++ rest) = Some (map canon_value row, rest).
Proof. exact row_serde_behaviour_l. Qed.

(* the property: an equal row of the same types comes back, and the reader stops exactly at
   the end of the row *)
Theorem row_serde_roundtrip :
  forall row rest, row_wf row = true ->
    exists row', deser_row (ser_row row ++ rest) = Some (row', rest) /\ row_same row row' = true.
Proof. exact row_serde_roundtrip_l. Qed.

(* bit-for-bit when no Float is a non-canonical NaN (in particular +0.0 and -0.0 keep their sign) *)
Theorem row_serde_roundtrip_exact :
  forall row rest, row_wf row = true -> forallb value_exact row = true ->
    deser_row (ser_row row ++ rest) = Some (row, rest).
Proof. exact row_serde_roundtrip_exact_l. Qed.

(* the same through the (data, &mut offset) interface, after any prefix *)
Theorem row_serde_at_offset :
  forall pre row rest, row_wf row = true ->
    exists row', deser_row_at (pre ++ ser_row row ++ rest) (blen pre) = Some (row', blen pre + blen (ser_row row))
                 /\ row_same row row' = true.
Proof. exact row_serde_at_offset_l. Qed.

(* sequences of rows in one buffer decode in order *)
Theorem row_serde_concat :
  forall rows rest, forallb row_wf rows = true ->
    exists rows', deser_rows (length rows) (ser_rows rows ++ rest) = Some (rows', rest) /\ rows_same rows rows' = true.
Proof. exact row_serde_concat_l. Qed.

(* the computed size equals the bytes written: every row of well-typed values, no size limit *)
Theorem row_size_exact :
  forall row, forallb value_typed row = true -> row_size row = blen (ser_row row).
Proof. exact row_size_exact_l. Qed.

(* PartitionSpiller (one partition): whatever the budget, the rows read back equal the rows written *)
Theorem partition_spiller_roundtrip :
  forall budget rows, forallb row_wf rows = true ->
    exists out, spiller_read budget rows = Some out /\ rows_same rows out = true.
Proof. exact spiller_read_l. Qed.

(* the rows of the former finding F-C33-1 (fixed by /repo commit d11dc56): +0.0 and -0.0 come back
   bit for bit, and the spiller returns the same rows whether or not it spilled *)
Theorem zero_float_regression :
  deser_row (ser_row [VInt 7; VFloat 0; VFloat F64_NEG_ZERO]) = Some ([VInt 7; VFloat 0; VFloat F64_NEG_ZERO], []) /\
  spiller_read 0 [[VFloat 0]] = Some [[VFloat 0]] /\ spiller_read 1000 [[VFloat 0]] = Some [[VFloat 0]].
Proof. exact zero_float_regression_l. Qed.

(* the subquery spill format keeps every bit of all 23 OwnedValue variants *)
Theorem subquery_spill_roundtrip :
  forall rows rest, forallb orow_wf rows = true ->
    odeser_rows (length rows) (oser_rows rows ++ rest) = Some (rows, rest).
Proof. exact subquery_rows_roundtrip_l. Qed.

Theorem subquery_buffer_roundtrip :
  forall limit rows, forallb orow_wf rows = true -> subbuf_read limit rows = Some rows.
Proof. exact subquery_buffer_l. Qed.

(* the float tests the model performs on bit patterns are the IEEE 754 binary64 ones (Flocq), for
   every 64-bit pattern: f.is_nan(), the comparison of f with 0.0 (None = unordered), f == +-inf *)
Theorem f64_is_nan_ieee :
  forall p, 0 <= p < 2 ^ 64 -> is_nan 53 1024 (b64_of_bits p) = f64_is_nan p.
Proof. exact f64_is_nan_ieee_l. Qed.

Theorem f64_cmp_zero_ieee :
  forall p, 0 <= p < 2 ^ 64 ->
    Bcompare 53 1024 (b64_of_bits p) (B754_zero 53 1024 false) =
      if f64_is_nan p then None else if f64_is_zero p then Some Eq else if f64_lt_zero p then Some Lt else Some Gt.
Proof. exact f64_cmp_zero_ieee_l. Qed.

Theorem f64_eq_inf_ieee :
  forall p, 0 <= p < 2 ^ 64 ->
    match Bcompare 53 1024 (b64_of_bits p) (B754_infinity 53 1024 false) with Some Eq => true | _ => false end = (p =? F64_INF) /\
    match Bcompare 53 1024 (b64_of_bits p) (B754_infinity 53 1024 true) with Some Eq => true | _ => false end = (p =? F64_NEG_INF).
Proof. exact f64_eq_inf_ieee_l. Qed.

(* non-vacuity: the hypotheses are met by rows over all variants; NaN payloads are the only
   other change; the u16 column count is a real limit of the format (so row_wf is not idle) *)
Example c33_witness :
  let row := [VNull; VInt (-5); VInt 0; VFloat 0; VFloat F64_NEG_ZERO; VFloat 0x3FF0000000000000; VFloat 0x7FF0000000000001; VFloat F64_NEG_INF;
              VText [104; 195; 169]; VBlob [0; 255]; VVector [0x3F800000; 0x7FC00001]; VUuid (repeat 7 16);
              VMacAddr (repeat 1 6); VInet4 [127; 0; 0; 1]; VInet6 (repeat 0 16); VJsonb [1]; VTimestampTz (-1) (-28800);
              VInterval 1 (-2) 3; VPoint 0 (2 ^ 63); VGeoBox 1 2 3 4; VCircle 1 2 3; VEnum 65535 0;
              VDecimal (- 2 ^ 127) (-32768); VToast [9]] in
  row_wf row = true /\ forallb value_exact row = false /\
  deser_row (ser_row row) = Some (map canon_value row, []) /\
  nth 6 (map canon_value row) VNull = VFloat F64_CANON_NAN /\
  nth 4 (map canon_value row) VNull = VFloat F64_NEG_ZERO /\
  row_size row = blen (ser_row row) /\
  deser_rows 2 (ser_rows [row; []] ++ [1]) = Some ([map canon_value row; []], [1]) /\
  value_wf (VText [192; 128]) = false /\
  orow_wf [OBool true; ODate (-1); OTime 5; OTimestamp 6; OV (VFloat 0); OV (VFloat (2 ^ 63))] = true.
Proof. vm_compute. repeat split. Qed.

(* a row of 65536 NULLs is written with column count 0 and read back as the empty row, the 65536
   value bytes left unread: the bound in row_wf cannot be dropped *)
Example c33_column_count_limit :
  match deser_row (ser_row (repeat VNull (Z.to_nat 65536))) with
  | Some (r, rest) => (Z.of_nat (length r) =? 0) && (blen rest =? 65536)
  | None => false
  end = true.
Proof. vm_compute. reflexivity. Qed.

Check row_serde_behaviour : forall row rest, row_wf row = true -> deser_row (ser_row row ++ rest) = Some (map canon_value row, rest).
Check row_serde_roundtrip : forall row rest, row_wf row = true -> exists row', deser_row (ser_row row ++ rest) = Some (row', rest) /\ row_same row row' = true.
Check row_serde_roundtrip_exact : forall row rest, row_wf row = true -> forallb value_exact row = true -> deser_row (ser_row row ++ rest) = Some (row, rest).
Check row_serde_at_offset : forall pre row rest, row_wf row = true -> exists row', deser_row_at (pre ++ ser_row row ++ rest) (blen pre) = Some (row', blen pre + blen (ser_row row)) /\ row_same row row' = true.
Check row_serde_concat : forall rows rest, forallb row_wf rows = true -> exists rows', deser_rows (length rows) (ser_rows rows ++ rest) = Some (rows', rest) /\ rows_same rows rows' = true.
Check row_size_exact : forall row, forallb value_typed row = true -> row_size row = blen (ser_row row).
Check partition_spiller_roundtrip : forall budget rows, forallb row_wf rows = true -> exists out, spiller_read budget rows = Some out /\ rows_same rows out = true.
Check zero_float_regression : deser_row (ser_row [VInt 7; VFloat 0; VFloat F64_NEG_ZERO]) = Some ([VInt 7; VFloat 0; VFloat F64_NEG_ZERO], []) /\ spiller_read 0 [[VFloat 0]] = Some [[VFloat 0]] /\ spiller_read 1000 [[VFloat 0]] = Some [[VFloat 0]].
Check subquery_spill_roundtrip : forall rows rest, forallb orow_wf rows = true -> odeser_rows (length rows) (oser_rows rows ++ rest) = Some (rows, rest).
Check subquery_buffer_roundtrip : forall limit rows, forallb orow_wf rows = true -> subbuf_read limit rows = Some rows.
Check f64_is_nan_ieee : forall p, 0 <= p < 2 ^ 64 -> is_nan 53 1024 (b64_of_bits p) = f64_is_nan p.
Check f64_cmp_zero_ieee : forall p, 0 <= p < 2 ^ 64 -> Bcompare 53 1024 (b64_of_bits p) (B754_zero 53 1024 false) = if f64_is_nan p then None else if f64_is_zero p then Some Eq else if f64_lt_zero p then Some Lt else Some Gt.
Check f64_eq_inf_ieee : forall p, 0 <= p < 2 ^ 64 -> match Bcompare 53 1024 (b64_of_bits p) (B754_infinity 53 1024 false) with Some Eq => true | _ => false end = (p =? F64_INF) /\ match Bcompare 53 1024 (b64_of_bits p) (B754_infinity 53 1024 true) with Some Eq => true | _ => false end = (p =? F64_NEG_INF).

Print Assumptions row_serde_behaviour.
Print Assumptions row_serde_roundtrip.
Print Assumptions row_serde_roundtrip_exact.
Print Assumptions row_serde_at_offset.
Print Assumptions row_serde_concat.
Print Assumptions row_size_exact.
Print Assumptions partition_spiller_roundtrip.
Print Assumptions zero_float_regression.
Print Assumptions subquery_spill_roundtrip.
Print Assumptions subquery_buffer_roundtrip.
Print Assumptions f64_is_nan_ieee.
Print Assumptions f64_cmp_zero_ieee.
Print Assumptions f64_eq_inf_ieee.
