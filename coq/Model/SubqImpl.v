(* C18 implementation model: how TurDB, AS IT IS, executes statements with subqueries and set
   operations.  Definitions only (proofs in Proof/SetOpsImpl.v, Proof/SubqImpl.v); hand-written
   (enums, Option, strings, AST recursion: outside tools/rs2v.py), tied to the code by the
   correspondence run (Corr/C18.v).

   Transcribed from /repo:
   * src/database/query/set_ops.rs  execute_branch_for_set_op: UNION ALL = concatenation; UNION =
     first occurrences (HashSet::insert on the row key); INTERSECT / EXCEPT keep the left rows
     whose key is / is not in the set of right keys, the plain forms additionally only the first
     occurrence; INTERSECT ALL / EXCEPT ALL count the right occurrences (since 432d38e).
     The row key (row_to_key) is the vector of the DefaultHasher hashes of the Debug rendering of
     each value; it is modelled as the row itself (equal keys iff srow_eqb): hash collisions and
     the injectivity of Debug on (type, value) are outside the model (trusted base).
   * src/sql/parser.rs: a chain q0 op q1 op q2 is parsed with the whole rest as the right operand
     (right associative, no precedence of INTERSECT): parse_right.
   * src/sql/optimizer/rules/decorrelate.rs: a Filter whose predicate is EXISTS / IN (subquery
     over a base table), or an AND chain containing one, is REPLACED by a semi / anti join of the
     input with the subquery's table under the condition [x = item AND] subquery WHERE (decor):
     the other conjuncts are dropped, NOT IN becomes a plain anti join.
   * src/sql/planner/convert.rs + src/sql/optimizer/join_analysis.rs: if the condition consists of
     nothing but column = column conjuncts (is_pure_equi_join), the join becomes a HashSemiJoin /
     HashAntiJoin on those key pairs; otherwise a NestedLoopJoin with the whole condition.
   * src/database/database.rs (join branch of query_with_columns): key pairs whose columns resolve
     to the same input are checked as equalities on the combined row, unresolvable ones ignored;
     NULL keys never match; the projection resolves plain columns by name and evaluates every
     other select item on the joined row (a subquery item is NULL).
   * src/sql/predicate.rs CompiledPredicate: EXISTS / IN (subquery) that were not decorrelated
     evaluate to TRUE; a scalar subquery is looked up in scalar_subquery_results (computed up
     front by execute_scalar_subquery for the subqueries found in FilterExec predicates: the
     value of the only row, NULL when there is no row or when the subquery's plan is not a plain
     table scan; an error when there are several rows or when it refers to an outer column) and is missing everywhere else (join
     conditions, the subquery's own nested subqueries, set-operation branches, the select list).
   * simple predicates (comparisons of BIGINT / TEXT values, AND / OR / NOT, IS NULL, + and -)
     are evaluated three-valued as in predicate.rs after the C14 repairs.
   Statements outside the shapes above are MUnm ("not modelled": only the reference semantics
   judges them). *)
From Coq Require Import ZArith List Bool Arith.
From TV Require Import Model.SqlSpec Model.SubqSpec.
Import ListNotations.
Open Scope Z_scope.

Inductive mres := MRows (t : table) | MErr | MUnm.

(* ------------------------------------------------------------------ set_ops.rs *)
(* `filter(|row| p(row) && seen.insert(key))` *)
Fixpoint filter_seen (p : row -> bool) (seen : table) (t : table) : table :=
  match t with
  | [] => []
  | x :: t' =>
      if p x && negb (mem_row x seen) then x :: filter_seen p (x :: seen) t'
      else filter_seen p seen t'
  end.
(* INTERSECT ALL / EXCEPT ALL: `right_counts.get_mut(key)`: every right occurrence admits /
   cancels one left occurrence *)
Fixpoint remove_one (x : row) (t : table) : table :=
  match t with
  | [] => []
  | y :: t' => if srow_eqb x y then t' else y :: remove_one x t'
  end.
Fixpoint inter_all (l r : table) : table :=
  match l with
  | [] => []
  | x :: l' => if mem_row x r then x :: inter_all l' (remove_one x r) else inter_all l' r
  end.
Fixpoint except_all (l r : table) : table :=
  match l with
  | [] => []
  | x :: l' => if mem_row x r then except_all l' (remove_one x r) else x :: except_all l' r
  end.
Definition impl_op (k : setk) (all : bool) (l r : table) : table :=
  match k, all with
  | KUnion, true => l ++ r
  | KUnion, false => filter_seen (fun _ => true) [] (l ++ r)
  | KIntersect, true => inter_all l r
  | KIntersect, false => filter_seen (fun x => mem_row x r) [] l
  | KExcept, true => except_all l r
  | KExcept, false => filter_seen (fun x => negb (mem_row x r)) [] l
  end.

(* the parser: everything after the first operator is the right operand *)
Fixpoint parse_right_from {A} (q0 : A) (l : list (setk * bool * A)) : stree A :=
  match l with
  | [] => TLeaf q0
  | (k, all, q) :: l' => TNode k all (TLeaf q0) (parse_right_from q l')
  end.
Definition parse_right {A} (c : gchain A) : stree A := let '(q0, l) := c in parse_right_from q0 l.

(* ------------------------------------------------------------------ predicate.rs *)
(* result of evaluating an expression: a truth value (None = UNKNOWN), a value (None = the Rust
   `None`: missing), an EXISTS / IN (subquery) node, or something outside the model *)
Inductive ires := ITv (o : option bool) | IVal (o : option value) | ISub | IUnm.

Definition is_none {A} (o : option A) : bool := match o with None => true | Some _ => false end.

(* eval_tv of a node (value_as_tv for value forms); outer None = not modelled *)
Definition as_tv (x : ires) : option (option bool) :=
  match x with
  | ITv o => Some o
  | IVal (Some (VInt n)) => Some (Some (negb (n =? 0)))
  | IVal (Some VNull) | IVal None => Some None
  | IVal (Some (VText _)) => Some (Some false)
  | IVal (Some _) => None
  | ISub => Some (Some true)
  | IUnm => None
  end.
(* eval_value of a node *)
Definition as_val (x : ires) : option (option value) :=
  match x with
  | IVal o => Some o
  | ITv (Some b) => Some (Some (VInt (Z.b2z b)))
  | ITv None => Some (Some VNull)
  | ISub => Some None
  | IUnm => None
  end.

Definition kand (a b : option bool) : option bool :=
  match a, b with
  | Some false, _ | _, Some false => Some false
  | Some true, Some true => Some true
  | _, _ => None
  end.
Definition kor (a b : option bool) : option bool :=
  match a, b with
  | Some true, _ | _, Some true => Some true
  | Some false, Some false => Some false
  | _, _ => None
  end.

(* compare_values after the NULL test of eval_tv; outer None = not modelled (doubles) *)
Definition icmp (op : cmpop) (x y : value) : option (option bool) :=
  match x, y with
  | VNull, (VNull | VInt _ | VText _) | (VInt _ | VText _), VNull => Some None
  | VInt a, VInt b => Some (Some (cmp_holds op (Z.compare a b)))
  | VText a, VText b => Some (Some (cmp_holds op (bytes_cmp a b)))
  | VInt _, VText _ | VText _, VInt _ => Some (Some false)
  | _, _ => None
  end.
(* eval_arithmetic_op on i64 (unchecked operators: overflow is a panic in the dev profile, not
   modelled); any other operand kind, NULL included, gives the Rust None *)
Definition iarith (op : arith) (x y : value) : option (option value) :=
  match x, y with
  | VInt a, VInt b => let z := arith_z op a b in if i64_ok z then Some (Some (VInt z)) else None
  | (VFloat _ | VBool _), _ | _, (VFloat _ | VBool _) => None
  | _, _ => Some None
  end.

Definition is_pred (e : sx) : bool :=
  match e with XCmp _ _ _ | XAnd _ _ | XOr _ _ | XNot _ | XIsNull _ _ => true | _ => false end.

Section Eval.
  Variable look : nat -> nat -> bool -> option value.   (* column lookup: level, index, qualified *)
  Variable scal : qry -> option value.                  (* scalar_subquery_results *)

  Fixpoint ieval (e : sx) : ires :=
    match e with
    | XCol l i q => IVal (look l i q)
    | XLit v =>
        match v with
        | VBool b => IVal (Some (VInt (Z.b2z b)))
        | VFloat _ => IUnm
        | _ => IVal (Some v)
        end
    | XArith op a b =>
        match as_val (ieval a), as_val (ieval b) with
        | Some (Some x), Some (Some y) => match iarith op x y with Some o => IVal o | None => IUnm end
        | Some None, Some _ | Some _, Some None => IVal None
        | _, _ => IUnm
        end
    | XCmp op a b =>
        match as_val (ieval a), as_val (ieval b) with
        | Some (Some x), Some (Some y) => match icmp op x y with Some o => ITv o | None => IUnm end
        | Some None, Some _ | Some _, Some None => ITv None
        | _, _ => IUnm
        end
    | XAnd a b =>
        match as_tv (ieval a), as_tv (ieval b) with
        | Some x, Some y => ITv (kand x y)
        | _, _ => IUnm
        end
    | XOr a b =>
        match as_tv (ieval a), as_tv (ieval b) with
        | Some x, Some y => ITv (kor x y)
        | _, _ => IUnm
        end
    | XNot a => match as_tv (ieval a) with Some x => ITv (option_map negb x) | None => IUnm end
    | XIsNull neg a =>
        if is_pred a then
          match as_tv (ieval a) with Some x => ITv (Some (xorb neg (is_none x))) | None => IUnm end
        else
          match as_val (ieval a) with
          | Some v => ITv (Some (xorb neg (match v with Some VNull | None => true | Some _ => false end)))
          | None => IUnm
          end
    | XIn _ _ _ | XExists _ _ => ISub
    | XScalar q => IVal (scal q)
    end.

  (* CompiledPredicate::evaluate: Some true = the row passes; None = not modelled *)
  Definition ipass (e : sx) : option bool :=
    match as_tv (ieval e) with
    | Some (Some true) => Some true
    | Some _ => Some false
    | None => None
    end.
End Eval.

Fixpoint filter_opt {A} (p : A -> option bool) (l : list A) : option (list A) :=
  match l with
  | [] => Some []
  | x :: l' =>
      match p x, filter_opt p l' with
      | Some b, Some t => Some (if b then x :: t else t)
      | _, _ => None
      end
  end.
Fixpoint map_opt {A B} (f : A -> option B) (l : list A) : option (list B) :=
  match l with
  | [] => Some []
  | x :: l' => match f x, map_opt f l' with Some y, Some t => Some (y :: t) | _, _ => None end
  end.

(* ------------------------------------------------------------------ decorrelate.rs *)
Inductive dec :=
| DExists (neg : bool) (k : nat) (w : option sx)
| DIn (neg : bool) (a : sx) (item : sx) (k : nat) (w : option sx).

(* try_decorrelate_filter: the first EXISTS / IN over a base table, searched through AND *)
Fixpoint decor (p : sx) : option dec :=
  match p with
  | XExists neg (QSel _ (SBase k) w) => Some (DExists neg k w)
  | XIn neg a (QSel (it :: _) (SBase k) w) => Some (DIn neg a it k w)
  | XAnd a b => match decor a with Some d => Some d | None => decor b end
  | _ => None
  end.

(* the outer expression seen from inside the subquery: its columns are one level up *)
Fixpoint lift1 (e : sx) : sx :=
  match e with
  | XCol l i q => XCol (S l) i q
  | XLit _ => e
  | XArith op a b => XArith op (lift1 a) (lift1 b)
  | XCmp op a b => XCmp op (lift1 a) (lift1 b)
  | XAnd a b => XAnd (lift1 a) (lift1 b)
  | XOr a b => XOr (lift1 a) (lift1 b)
  | XNot a => XNot (lift1 a)
  | XIsNull neg a => XIsNull neg (lift1 a)
  | XIn neg a q => XIn neg (lift1 a) q
  | XExists _ _ | XScalar _ => e
  end.
(* a bare column as the subquery's select item is qualified with the subquery's alias *)
Definition qualify_item (it : sx) : sx :=
  match it with XCol _ i false => XCol 0 i true | _ => it end.

Definition join_cond (d : dec) : option sx :=
  match d with
  | DExists _ _ w => w
  | DIn _ a it _ w =>
      let c := XCmp CEq (lift1 a) (qualify_item it) in
      Some (match w with Some p => XAnd c p | None => c end)
  end.
Definition dec_neg (d : dec) : bool := match d with DExists n _ _ | DIn n _ _ _ _ => n end.
Definition dec_tab (d : dec) : nat := match d with DExists _ k _ | DIn _ _ _ k _ => k end.

(* join_analysis.rs collect_equi_join_keys *)
Fixpoint equi_keys (e : sx) : list ((nat * nat * bool) * (nat * nat * bool)) :=
  match e with
  | XAnd a b => equi_keys a ++ equi_keys b
  | XCmp CEq (XCol l1 i1 q1) (XCol l2 i2 q2) => [((l1, i1, q1), (l2, i2, q2))]
  | _ => []
  end.

Section Join.
  Variables lw rw : nat.      (* column counts of the left (outer) and right (subquery) table *)

  (* find_column_idx over join_column_map (a Vec: the first entry with that name wins; the left
     table's entries come first).  Inside the condition the subquery's table is level 0 and the
     outer table level 1. *)
  Definition idx_by_name (i : nat) : option nat :=
    if (i <? lw)%nat then Some i else if (i <? rw)%nat then Some (lw + i)%nat else None.
  Definition key_idx (c : nat * nat * bool) : option nat :=
    let '(l, i, q) := c in
    if q then
      match l with
      | O => if (i <? rw)%nat then Some (lw + i)%nat else idx_by_name i
      | S O => if (i <? lw)%nat then Some i else idx_by_name i
      | _ => idx_by_name i
      end
    else idx_by_name i.
  Definition key_pair (k : (nat * nat * bool) * (nat * nat * bool)) : option (nat * nat) :=
    match key_idx (fst k), key_idx (snd k) with
    | Some a, Some b =>
        if (a <? lw)%nat && negb (b <? lw)%nat then Some (a, (b - lw)%nat)
        else if (b <? lw)%nat && negb (a <? lw)%nat then Some (b, (a - lw)%nat)
        else None
    | _, _ => None
    end.
  Fixpoint key_pairs (ks : list ((nat * nat * bool) * (nat * nat * bool))) : list (nat * nat) :=
    match ks with
    | [] => []
    | k :: ks' => match key_pair k with Some p => p :: key_pairs ks' | None => key_pairs ks' end
    end.

  (* owned_values_equal_with_coercion on BIGINT / TEXT / NULL; has_null_key *)
  Definition key_eq (a b : value) : option bool :=
    match a, b with
    | VNull, (VNull | VInt _ | VText _) | (VInt _ | VText _), VNull => Some false
    | VInt x, VInt y => Some (x =? y)
    | VText x, VText y => Some (zlist_eqb' x y)
    | VInt _, VText _ | VText _, VInt _ => Some false
    | _, _ => None
    end.
  Fixpoint hash_match (ps : list (nat * nat)) (l r : row) : option bool :=
    match ps with
    | [] => Some true
    | (li, ri) :: ps' =>
        match nth_error l li, nth_error r ri with
        | Some a, Some b =>
            match key_eq a b, hash_match ps' l r with
            | Some x, Some y => Some (x && y)
            | _, _ => None
            end
        | _, _ => Some false
        end
    end.

  (* CompiledPredicate over the combined row (a HashMap: the last entry with that name wins,
     i.e. the right table's; a qualified name that is not found falls back to the bare name) *)
  Definition look_bare (l r : row) (i : nat) : option value :=
    if (i <? rw)%nat then nth_error r i else if (i <? lw)%nat then nth_error l i else None.
  Definition look_join (l r : row) (lvl i : nat) (q : bool) : option value :=
    if q then
      match lvl with
      | O => if (i <? rw)%nat then nth_error r i else look_bare l r i
      | S O => if (i <? lw)%nat then nth_error l i else look_bare l r i
      | _ => look_bare l r i
      end
    else look_bare l r i.

  (* planner/convert.rs is_pure_equi_join (53a2c94): the hash semi / anti join is planned only when
     the condition is nothing but column = column conjuncts whose qualified sides name one table
     of each input; everything else is a nested loop over the whole condition *)
  Fixpoint all_equi (e : sx) : bool :=
    match e with
    | XAnd a b => all_equi a && all_equi b
    | XCmp CEq (XCol _ _ _) (XCol _ _ _) => true
    | _ => false
    end.
  Definition key_tables_ok (k : (nat * nat * bool) * (nat * nat * bool)) : bool :=
    let '((l1, _, q1), (l2, _, q2)) := k in
    if q1 && q2 then ((l1 =? 0)%nat && (l2 =? 1)%nat) || ((l1 =? 1)%nat && (l2 =? 0)%nat) else true.
  Definition hash_path (c : sx) : bool :=
    negb (match equi_keys c with [] => true | _ => false end) && all_equi c && forallb key_tables_ok (equi_keys c).

  (* database.rs (824c6c8): a key whose two columns resolve to the same input is not a hash key
     but is still checked, as an equality on the combined row *)
  Definition key_same (k : (nat * nat * bool) * (nat * nat * bool)) : option (nat * nat) :=
    match key_idx (fst k), key_idx (snd k) with
    | Some a, Some b => if Bool.eqb (a <? lw)%nat (b <? lw)%nat then Some (a, b) else None
    | _, _ => None
    end.
  Fixpoint same_keys (ks : list ((nat * nat * bool) * (nat * nat * bool))) : list (nat * nat) :=
    match ks with
    | [] => []
    | k :: ks' => match key_same k with Some p => p :: same_keys ks' | None => same_keys ks' end
    end.
  Fixpoint same_match (ss : list (nat * nat)) (comb : row) : option bool :=
    match ss with
    | [] => Some true
    | (a, b) :: ss' =>
        match nth_error comb a, nth_error comb b with
        | Some x, Some y =>
            match key_eq x y, same_match ss' comb with
            | Some u, Some v => Some (u && v)
            | _, _ => None
            end
        | _, _ => Some false
        end
    end.

  (* does the pair (l, r) match *)
  Definition join_match (cond : option sx) (l r : row) : option bool :=
    match cond with
    | None => Some true
    | Some c =>
        if hash_path c then
          match same_match (same_keys (equi_keys c)) (l ++ r) with
          | None => None
          | Some s =>
              match key_pairs (equi_keys c) with
              | [] => Some s
              | ps => option_map (andb s) (hash_match ps l r)
              end
          end
        else ipass (look_join l r) (fun _ => None) c
    end.

  Fixpoint exists_opt (p : row -> option bool) (t : table) : option bool :=
    match t with
    | [] => Some false
    | r :: t' => match p r, exists_opt p t' with Some a, Some b => Some (a || b) | _, _ => None end
    end.
  (* semi join: the left rows with a partner; anti join: those without *)
  Definition semi_anti (neg : bool) (cond : option sx) (L R : table) : option table :=
    filter_opt (fun l => option_map (xorb neg) (exists_opt (join_match cond l) R)) L.

  (* resolve_expr_to_idx: plain columns by name; every other select item is evaluated by
     CompiledPredicate on the joined row, without scalar_subquery_results: a subquery item is
     NULL (other expressions over the joined row are not modelled) *)
  Definition proj_idx (it : sx) : nat :=
    match it with
    | XCol l i q =>
        match (if q then match l with O => if (i <? lw)%nat then Some i else idx_by_name i | _ => idx_by_name i end
               else idx_by_name i) with
        | Some j => j
        | None => O
        end
    | _ => O
    end.
  Definition join_item (l : row) (it : sx) : option value :=
    match it with
    | XCol _ _ _ => let j := proj_idx it in if (j <? lw)%nat then nth_error l j else None
    | XScalar _ | XIn _ _ _ | XExists _ _ => Some VNull
    | _ => None
    end.
  Definition join_project (items : list sx) (l : row) : option row := map_opt (join_item l) items.
End Join.

(* ------------------------------------------------------------------ statements *)
Section Db.
  Variable widths : list nat.
  Variable db : list table.

  (* column references of a level that has no outer level to look at *)
  Definition look_own (r : row) (lvl i : nat) (_ : bool) : option value :=
    match lvl with O => nth_error r i | _ => None end.

  (* a column reference to an outer level at this level of the expression (not inside nested
     subqueries, nor in the left operand of IN (subquery)): planning the subquery on its own fails *)
  Fixpoint own_outer (e : sx) : bool :=
    match e with
    | XCol l _ _ => negb (l =? 0)%nat
    | XLit _ => false
    | XArith _ a b | XCmp _ a b | XAnd a b | XOr a b => own_outer a || own_outer b
    | XNot a | XIsNull _ a => own_outer a
    | XIn _ _ _ | XExists _ _ | XScalar _ => false
    end.

  Fixpoint has_sub (e : sx) : bool :=
    match e with
    | XCol _ _ _ | XLit _ => false
    | XArith _ a b | XCmp _ a b | XAnd a b | XOr a b => has_sub a || has_sub b
    | XNot a | XIsNull _ a => has_sub a
    | XIn _ _ _ | XExists _ _ | XScalar _ => true
    end.

  (* plain select items *)
  Definition plain_item (r : row) (it : sx) : option value :=
    match it with XCol O i _ => nth_error r i | _ => None end.

  (* ---- execute_scalar_subquery *)
  Inductive sres := SVal (v : value) | SErrq | SUnm.
  Definition impl_scalar (q : qry) : sres :=
    match q with
    | QSel [XCol O i _] (SBase k) w =>
        match nth_error db k with
        | None => SUnm
        | Some T =>
            match w with
            | None =>
                match T with
                | [] => SVal VNull
                | [r] => match nth_error r i with Some v => SVal v | None => SUnm end
                | _ :: _ :: _ => SErrq                     (* "scalar subquery returned more than one row" *)
                end
            | Some p =>
                if own_outer p then SErrq                   (* planning fails: "column not found" *)
                else
                  match decor p with
                  | Some _ => SVal VNull                    (* the plan is a join, not a table scan *)
                  | None =>
                      match filter_opt (fun r => ipass (look_own r) (fun _ => None) p) T with
                      | None => SUnm
                      | Some [] => SVal VNull
                      | Some [r] => match nth_error r i with Some v => SVal v | None => SUnm end
                      | Some (_ :: _ :: _) => SErrq         (* more than one row: an error (855697d) *)
                      end
                  end
            end
        end
    | QSel [XCol O _ _] (SSub _) _ => SVal VNull           (* plan source is a subquery *)
    | _ => SUnm
    end.

  (* collect_scalar_subqueries: through operators, NOT and IS NULL; not into IN / EXISTS *)
  Fixpoint scalars_of (e : sx) : list qry :=
    match e with
    | XCol _ _ _ | XLit _ => []
    | XArith _ a b | XCmp _ a b | XAnd a b | XOr a b => scalars_of a ++ scalars_of b
    | XNot a | XIsNull _ a => scalars_of a
    | XIn _ _ _ | XExists _ _ => []
    | XScalar q => [q]
    end.
  Definition scal_ok (s : sres) : bool := match s with SVal _ => true | _ => false end.
  Definition scal_err (s : sres) : bool := match s with SErrq => true | _ => false end.
  Definition scal_table (q : qry) : option value :=
    match impl_scalar q with SVal v => Some v | _ => None end.

  (* select item of the filter path: a plain column, or a subquery (never computed: NULL) *)
  Definition filter_item (r : row) (it : sx) : option value :=
    match it with
    | XCol O i _ => nth_error r i
    | XScalar _ | XIn _ _ _ | XExists _ _ => Some VNull
    | _ => None
    end.

  (* ---- FROM (subquery): rows of a derived table whose levels only have simple predicates *)
  Fixpoint impl_derived (q : qry) : option table :=
    match q with
    | QSel items s (Some p) =>
        if has_sub p then None else
        match (match s with
               | SBase k => nth_error db k
               | SSub q' => impl_derived q'
               end) with
        | None => None
        | Some T =>
            match filter_opt (fun r => ipass (look_own r) (fun _ => None) p) T with
            | None => None
            | Some rows => map_opt (fun r => map_opt (plain_item r) items) rows
            end
        end
    | _ => None
    end.

  (* ---- one SELECT as a whole statement *)
  Definition filter_path (items : list sx) (L : table) (p : sx) : mres :=
    let ss := map impl_scalar (scalars_of p) in
    if existsb scal_err ss then MErr
    else if negb (forallb scal_ok ss) then MUnm
    else
      match filter_opt (fun r => ipass (look_own r) scal_table p) L with
      | None => MUnm
      | Some rows =>
          match map_opt (fun r => map_opt (filter_item r) items) rows with
          | Some t => MRows t
          | None => MUnm
          end
      end.

  Definition join_path (items : list sx) (L : table) (lw : nat) (d : dec) : mres :=
    match nth_error db (dec_tab d), nth_error widths (dec_tab d) with
    | Some R, Some rw =>
        match semi_anti lw rw (dec_neg d) (join_cond d) L R with
        | None => MUnm
        | Some rows =>
            match map_opt (join_project lw rw items) rows with
            | Some t => MRows t
            | None => MUnm
            end
        end
    | _, _ => MUnm
    end.

  Definition impl_select (q : qry) : mres :=
    match q with
    | QSel items (SBase k) (Some p) =>
        match nth_error db k, nth_error widths k with
        | Some L, Some lw =>
            match decor p with
            | Some d => join_path items L lw d
            | None => filter_path items L p
            end
        | _, _ => MUnm
        end
    | QSel items (SSub q') (Some p) =>
        if has_sub p then MUnm else
        match impl_derived q' with
        | Some L => filter_path items L p
        | None => MUnm
        end
    | _ => MUnm
    end.

  (* ---- a branch of a set operation: the Volcano executor over one table scan, without scalar
          subquery results; a decorrelated branch has no table scan: error *)
  Definition impl_leaf (q : qry) : mres :=
    match q with
    | QSel items (SBase k) (Some p) =>
        match nth_error db k with
        | None => MUnm
        | Some L =>
            match decor p with
            | Some _ => MErr
            | None =>
                match filter_opt (fun r => ipass (look_own r) (fun _ => None) p) L with
                | None => MUnm
                | Some rows =>
                    match map_opt (fun r => map_opt (plain_item r) items) rows with
                    | Some t => MRows t
                    | None => MUnm
                    end
                end
            end
        end
    | _ => MUnm
    end.

  Fixpoint impl_tree (t : stree qry) : mres :=
    match t with
    | TNode k all l r =>
        match impl_tree l, impl_tree r with
        | MUnm, _ | _, MUnm => MUnm
        | MErr, _ | _, MErr => MErr
        | MRows a, MRows b => MRows (impl_op k all a b)
        end
    | TLeaf q => impl_leaf q
    end.

  Definition impl_stmt (c : chain) : mres :=
    match snd c with
    | [] => impl_select (fst c)
    | _ => impl_tree (parse_right c)
    end.
End Db.
