(* C34 proofs, part 2: the representation invariant of the freelist and its preservation by
   release / allocate / client writes of a disciplined client.

   A state is described by the trunk chain [ts] (head first; each trunk = its page number and
   its entries, top of stack first).  The client's bag of free pages is exactly
   pages of the chain + their entries,  without repetition, and free_count is its size. *)
From Coq Require Import ZArith List Bool Lia ZifyBool FMapPositive Permutation.
From TV Require Import Lib.MachInt Gen.FreelistConsts Gen.Freelist Model.Freelist Proof.Freelist.
Import ListNotations.
Open Scope Z_scope.

Notation trunk := (Z * list Z)%type.
Definition zlen {A} (l : list A) : Z := Z.of_nat (length l).

Lemma zlen_nil : forall A, zlen (@nil A) = 0. Proof. reflexivity. Qed.
Lemma zlen_cons : forall A (x : A) l, zlen (x :: l) = zlen l + 1.
Proof. intros. unfold zlen. cbn [length]. lia. Qed.
Lemma zlen_app : forall A (a b : list A), zlen (a ++ b) = zlen a + zlen b.
Proof. intros. unfold zlen. rewrite app_length. lia. Qed.
Lemma zlen_nonneg : forall A (l : list A), 0 <= zlen l.
Proof. intros. unfold zlen. lia. Qed.
Lemma zlen_zero : forall A (l : list A), zlen l = 0 -> l = [].
Proof. intros A [|x l] H; [reflexivity|]. rewrite zlen_cons in H. pose proof (zlen_nonneg _ l). lia. Qed.

Fixpoint ents (m : memT) (t : Z) (s : list Z) : Prop :=
  match s with
  | [] => True
  | x :: s' => mget m t (W_ENT + zlen s') = x /\ ents m t s'
  end.

Fixpoint chain (m : memT) (h : Z) (ts : list trunk) : Prop :=
  match ts with
  | [] => h = 0
  | (t, s) :: rest =>
      h = t /\ mget m t W_COUNT = zlen s /\ zlen s <= TRUNK_MAX_ENTRIES /\ ents m t s /\
      chain m (mget m t W_NEXT) rest
  end.

Fixpoint flat (ts : list trunk) : list Z :=
  match ts with [] => [] | (t, s) :: rest => t :: s ++ flat rest end.
Fixpoint etot (ts : list trunk) : Z :=
  match ts with [] => 0 | (_, s) :: rest => zlen s + etot rest end.

Lemma zlen_flat : forall ts, zlen (flat ts) = etot ts + zlen ts.
Proof.
  induction ts as [|[t s] rest IH]; [reflexivity|].
  cbn [flat etot]. rewrite !zlen_cons, zlen_app, IH. lia.
Qed.
Lemma etot_nonneg : forall ts, 0 <= etot ts.
Proof. induction ts as [|[t s] rest IH]; cbn [etot]; [lia|]. pose proof (zlen_nonneg _ s). lia. Qed.

(* ------------------------------------------------------------------ the set side *)
Definition SetOK (np : Z) (b : bagT) (nf : Z) (A : list Z) : Prop :=
  NoDup A /\ (forall x, In x A <-> bmem x b = true) /\ (forall x, In x A -> 1 <= x < np) /\ nf = zlen A.

Lemma bmem_bdel : forall p q b, 0 <= p -> bmem q (bdel p b) = bmem q b && negb (q =? p).
Proof.
  intros p q b Hp. destruct (Z.eqb_spec q p) as [->|Hne].
  - rewrite bmem_bdel_same. symmetry. apply andb_false_r.
  - cbn [negb]. rewrite andb_true_r. destruct (Z_lt_le_dec q 0) as [Hq|Hq].
    + unfold bmem. destruct (Z.leb_spec 0 q); [lia|reflexivity].
    + apply bmem_bdel_other; lia.
Qed.
Lemma bmem_badd : forall p q b, 0 <= p -> bmem q (badd p b) = bmem q b || (q =? p).
Proof.
  intros p q b Hp. destruct (Z.eqb_spec q p) as [->|Hne].
  - rewrite bmem_badd_same by lia. symmetry. apply orb_true_r.
  - rewrite orb_false_r. destruct (Z_lt_le_dec q 0) as [Hq|Hq].
    + unfold bmem. destruct (Z.leb_spec 0 q); [lia|reflexivity].
    + apply bmem_badd_other; lia.
Qed.

Lemma setok_perm : forall np b nf A A', Permutation A A' -> SetOK np b nf A -> SetOK np b nf A'.
Proof.
  intros np b nf A A' HP (Hnd & Hbag & Hrng & Hnf). repeat split.
  - eapply Permutation_NoDup; eauto.
  - intro Hx. apply Hbag. eapply Permutation_in; [apply Permutation_sym|]; eauto.
  - intro Hx. eapply Permutation_in; eauto. apply Hbag. exact Hx.
  - apply Hrng. eapply Permutation_in; [apply Permutation_sym|]; eauto.
  - apply Hrng. eapply Permutation_in; [apply Permutation_sym|]; eauto.
  - subst nf. unfold zlen. rewrite (Permutation_length HP). reflexivity.
Qed.

Lemma setok_del : forall np b nf A x A', Permutation A (x :: A') -> SetOK np b nf A ->
  bmem x b = true /\ 1 <= x < np /\ SetOK np (bdel x b) (nf - 1) A'.
Proof.
  intros np b nf A x A' HP H. apply (setok_perm _ _ _ _ _ HP) in H.
  destruct H as (Hnd & Hbag & Hrng & Hnf).
  assert (Hx : 1 <= x < np) by (apply Hrng; left; reflexivity).
  inversion Hnd as [|? ? Hnotin Hnd']; subst.
  split; [apply Hbag; left; reflexivity|]. split; [exact Hx|]. repeat split.
  - exact Hnd'.
  - intro Hy. rewrite bmem_bdel by lia. apply andb_true_intro. split.
    + apply Hbag. right. exact Hy.
    + destruct (Z.eqb_spec x0 x) as [->|]; [contradiction|reflexivity].
  - intro Hy. rewrite bmem_bdel in Hy by lia. apply andb_prop in Hy. destruct Hy as [Hy1 Hy2].
    apply Hbag in Hy1. destruct Hy1 as [->|Hy1]; [|exact Hy1].
    rewrite Z.eqb_refl in Hy2. discriminate.
  - apply Hrng. right. assumption.
  - apply Hrng. right. assumption.
  - rewrite zlen_cons. lia.
Qed.

Lemma setok_add : forall np b nf A p, SetOK np b nf A -> 1 <= p < np -> bmem p b = false ->
  SetOK np (badd p b) (nf + 1) (p :: A).
Proof.
  intros np b nf A p (Hnd & Hbag & Hrng & Hnf) Hp Hpb. repeat split.
  - constructor; [|exact Hnd]. intro Hin. apply Hbag in Hin. congruence.
  - intros [->|Hx]; rewrite bmem_badd by lia.
    + rewrite Z.eqb_refl. apply orb_true_r.
    + apply Hbag in Hx. rewrite Hx. reflexivity.
  - rewrite bmem_badd by lia. intro Hx. apply orb_prop in Hx. destruct Hx as [Hx|Hx].
    + right. apply Hbag. exact Hx.
    + left. lia.
  - destruct H as [->|Hx]; [lia|apply Hrng; exact Hx].
  - destruct H as [->|Hx]; [lia|apply Hrng; exact Hx].
  - rewrite zlen_cons. lia.
Qed.

(* pigeonhole: a repetition-free list of page numbers of the store is no longer than the store *)
Lemma nodup_range_length : forall np A, NoDup A -> (forall x, In x A -> 1 <= x < np) ->
  (length A <= Z.to_nat (np - 1))%nat.
Proof.
  intros np A Hnd Hrng.
  rewrite <- (seq_length (Z.to_nat (np - 1)) 1), <- (map_length Z.of_nat).
  apply NoDup_incl_length; [exact Hnd|].
  intros x Hx. specialize (Hrng x Hx). apply in_map_iff. exists (Z.to_nat x). split; [lia|].
  apply in_seq. lia.
Qed.

(* ------------------------------------------------------------------ frames *)
Lemma ents_frame : forall m m' t s,
  (forall k, 0 <= k < zlen s -> mget m' t (W_ENT + k) = mget m t (W_ENT + k)) ->
  ents m t s -> ents m' t s.
Proof.
  intros m m' t s. induction s as [|x s' IH]; intros Hf H; [exact I|].
  cbn [ents] in *. destruct H as [H1 H2]. rewrite zlen_cons in Hf. pose proof (zlen_nonneg _ s'). split.
  - rewrite Hf by lia. exact H1.
  - apply IH; [|exact H2]. intros k Hk. apply Hf. lia.
Qed.

Lemma chain_frame : forall m m' ts h,
  (forall t i, In t (map fst ts) -> 0 <= i < WORDS -> mget m' t i = mget m t i) ->
  chain m h ts -> chain m' h ts.
Proof.
  intros m m' ts. induction ts as [|[t s] rest IH]; intros h Hf H; [exact H|].
  cbn [chain] in *. destruct H as (Hh & Hc & Hle & He & Hn).
  assert (Hin : In t (map fst ((t, s) :: rest))) by (left; reflexivity).
  repeat split.
  - exact Hh.
  - rewrite Hf; [exact Hc|exact Hin|geom; lia].
  - exact Hle.
  - eapply ents_frame; [|exact He]. intros k Hk. apply Hf; [exact Hin|]. geom. lia.
  - rewrite Hf; [|exact Hin|geom; lia]. apply IH; [|exact Hn].
    intros t' i Ht' Hi. apply Hf; [right; exact Ht'|exact Hi].
Qed.

Lemma chain_frame_mset : forall m ts h q j v,
  (forall t, In t (map fst ts) -> 0 <= t /\ t <> q) -> 0 <= q -> 0 <= j < WORDS ->
  chain m h ts -> chain (mset m q j v) h ts.
Proof.
  intros m ts h q j v Hne Hq Hj H. eapply chain_frame; [|exact H].
  intros t i Ht Hi. destruct (Hne t Ht). apply mget_mset_other; try lia.
Qed.

Lemma chain_cons_intro : forall m h t s rest,
  h = t -> mget m t W_COUNT = zlen s -> zlen s <= TRUNK_MAX_ENTRIES -> ents m t s ->
  chain m (mget m t W_NEXT) rest -> chain m h ((t, s) :: rest).
Proof. intros. cbn [chain]. tauto. Qed.

Lemma pages_in_flat : forall ts t, In t (map fst ts) -> In t (flat ts).
Proof.
  induction ts as [|[t0 s] rest IH]; intros t H; [exact H|].
  cbn [map fst flat] in *. destruct H as [->|H]; [left; reflexivity|].
  right. apply in_or_app. right. apply IH. exact H.
Qed.

(* ------------------------------------------------------------------ the invariant *)
Record Core (np : Z) (st : state) (b : bagT) (nf : Z) (ts : list trunk) : Prop := mkCore {
  c_chain : chain (mem st) (head st) ts;
  c_set : SetOK np b nf (flat ts);
  c_fc : fc st = zlen (flat ts) }.

Lemma core_new : forall np, Core np st_new (PositiveMap.empty unit) 0 [].
Proof.
  intro np. constructor; cbn.
  - reflexivity.
  - repeat split; try constructor; try contradiction.
    intro H. rewrite bmem_empty in H. discriminate.
  - reflexivity.
Qed.

Lemma core_rng : forall np st b nf ts x, Core np st b nf ts -> In x (flat ts) -> 1 <= x < np.
Proof. intros. destruct H as [_ (_ & _ & Hr & _) _]. auto. Qed.

Lemma core_fc_nf : forall np st b nf ts, Core np st b nf ts -> fc st = nf.
Proof. intros np st b nf ts [_ (_ & _ & _ & Hnf) Hfc]. congruence. Qed.

Lemma core_head_nil : forall np st b nf ts, Core np st b nf ts -> head st = 0 -> ts = [].
Proof.
  intros np st b nf ts H Hh. destruct ts as [|[t s] rest]; [reflexivity|].
  pose proof (core_rng _ _ _ _ _ t H (or_introl eq_refl)) as Hr. destruct H as [Hc _ _].
  cbn [chain] in Hc. destruct Hc as (Ht & _). lia.
Qed.

Lemma setok_rest_pages : forall np b nf h s rest,
  SetOK np b nf (flat ((h, s) :: rest)) -> forall t, In t (map fst rest) -> 0 <= t /\ t <> h.
Proof.
  intros np b nf h s rest (Hnd & _ & Hr & _) t Ht. apply pages_in_flat in Ht.
  assert (Hin2 : In t (flat ((h, s) :: rest))).
  { cbn [flat]. right. apply in_or_app. right. exact Ht. }
  specialize (Hr t Hin2). split; [lia|]. intros ->.
  cbn [flat] in Hnd. inversion Hnd as [|? ? Hni _]; subst.
  apply Hni. apply in_or_app. right. exact Ht.
Qed.

(* ------------------------------------------------------------------ release *)
Lemma release_core : forall np st b nf ts p,
  np < 2 ^ 32 ->
  Core np st b nf ts -> 1 <= p < np -> bmem p b = false ->
  exists st', release np st p = (st', OOk) /\ exists ts', Core np st' (badd p b) (nf + 1) ts'.
Proof.
  intros np st b nf ts p Hnp HC Hp Hpb.
  assert (Hnotin : ~ In p (flat ts)).
  { destruct HC as [_ (_ & Hbag & _) _]. intro Hin. apply Hbag in Hin. congruence. }
  assert (Hfcb : fc st + 1 < 2 ^ 32).
  { destruct HC as [_ (Hnd & _ & Hr & _) Hfc].
    pose proof (nodup_range_length np _ Hnd Hr) as Hl. unfold zlen in Hfc. lia. }
  unfold release.
  destruct (Z.eqb_spec (head st) 0) as [Hh|Hh].
  - (* initialize_trunk *)
    pose proof (core_head_nil _ _ _ _ _ HC Hh) as ->.
    assert (Hin : in_store np p = true) by (unfold in_store; lia).
    rewrite Hin. cbn [negb]. eexists. split; [reflexivity|].
    exists [(p, [])]. destruct HC as [Hc Hs Hfc]. constructor; cbn [mem head fc].
    + apply chain_cons_intro.
      * reflexivity.
      * apply mget_mset_same.
      * geom. cbn. lia.
      * exact I.
      * rewrite mget_mset_other by (geom; lia). rewrite mget_mset_same. reflexivity.
    + cbn [flat app]. apply setok_add; assumption.
    + reflexivity.
  - destruct ts as [|[h s] rest].
    { destruct HC as [Hc _ _]. cbn [chain] in Hc. contradiction. }
    pose proof (core_rng _ _ _ _ _ h HC (or_introl eq_refl)) as Hh1.
    destruct HC as [Hc Hs Hfc]. cbn [chain] in Hc. destruct Hc as (Hhd & Hcnt & Hle & He & Hnx).
    rewrite Hhd in *.
    assert (Hin : in_store np h = true) by (unfold in_store; lia). rewrite Hin. cbn [negb].
    assert (Hinp : in_store np p = true) by (unfold in_store; lia).
    assert (Hfo : fc_inc_ok (fc st) = true) by (unfold fc_inc_ok; lia).
    cbv zeta. rewrite Hcnt. geom. pose proof (zlen_nonneg _ s) as Hs0.
    assert (Hpages : forall t, In t (map fst ((h, s) :: rest)) -> 0 <= t /\ t <> p).
    { intros t Ht. apply pages_in_flat in Ht.
      destruct Hs as (_ & _ & Hr & _). specialize (Hr t Ht). split; [lia|].
      intros ->. apply Hnotin. exact Ht. }
    pose proof (setok_rest_pages _ _ _ _ _ _ Hs) as Hrest.
    destruct (Z.geb_spec (zlen s) 4090) as [Hfull|Hnf].
    + (* create_new_trunk *)
      rewrite Hinp, Hfo. cbn [negb]. eexists. split; [reflexivity|].
      exists ((p, []) :: (h, s) :: rest). constructor; cbn [mem head fc].
      * apply chain_cons_intro.
        -- reflexivity.
        -- apply mget_mset_same.
        -- geom. cbn. lia.
        -- exact I.
        -- rewrite mget_mset_other by (geom; lia). rewrite mget_mset_same.
           apply chain_frame_mset; [exact Hpages|lia|geom; lia|].
           apply chain_frame_mset; [exact Hpages|lia|geom; lia|].
           apply chain_cons_intro; geom; auto.
      * change (flat ((p, []) :: (h, s) :: rest)) with (p :: flat ((h, s) :: rest)).
        apply setok_add; assumption.
      * change (flat ((p, []) :: (h, s) :: rest)) with (p :: flat ((h, s) :: rest)).
        rewrite zlen_cons. lia.
    + (* push onto the head trunk *)
      destruct (Z.gtb_spec (16 + 8 + zlen s * 4 + 4) 16384) as [Hbad|_]; [lia|].
      rewrite Hfo. eexists. split; [reflexivity|].
      exists ((h, p :: s) :: rest).
      constructor; cbn [mem head fc].
      * apply chain_cons_intro.
        -- reflexivity.
        -- rewrite mget_mset_same. rewrite zlen_cons. reflexivity.
        -- geom. rewrite zlen_cons. lia.
        -- cbn [ents]. split.
           ++ rewrite mget_mset_other by (geom; lia). apply mget_mset_same.
           ++ eapply ents_frame; [|exact He]. intros k Hk.
              rewrite !mget_mset_other by (geom; lia). reflexivity.
        -- rewrite !mget_mset_other by (geom; lia).
           apply chain_frame_mset; [exact Hrest|lia|geom; lia|].
           apply chain_frame_mset; [exact Hrest|lia|geom; lia|]. exact Hnx.
      * eapply setok_perm; [|apply setok_add; [exact Hs|exact Hp|exact Hpb]].
        exact (perm_swap h p (s ++ flat rest)).
      * cbn [flat] in *. rewrite !zlen_cons in *. rewrite zlen_app in *. rewrite zlen_cons. lia.
Qed.

(* ------------------------------------------------------------------ allocate *)
Definition alloc_post (np : Z) (b : bagT) (nf : Z) (st st' : state) (r : out) : Prop :=
  (r = ONone /\ nf = 0 /\ st' = st)
  \/ (exists x, r = OSome x /\ bmem x b = true /\ exists ts', Core np st' (bdel x b) (nf - 1) ts').

Lemma alloc_core : forall np ts st b nf,
  Core np st b nf ts -> exists st' r, alloc np st = (st', r) /\ alloc_post np b nf st st' r.
Proof.
  intros np ts st b nf HC. unfold alloc. cbv zeta.
  destruct ts as [|[h s] rest].
  - (* no trunk: head_page = 0, free_count = 0 *)
    destruct HC as [Hc (_ & _ & _ & Hnf) Hfc]. cbn [chain] in Hc. rewrite Hc, Z.eqb_refl, orb_true_r.
    eexists _, _. split; [reflexivity|]. left. repeat split. subst nf. reflexivity.
  - pose proof (core_rng _ _ _ _ _ h HC (or_introl eq_refl)) as Hh1.
    pose proof HC as [Hc Hs Hfc]. cbn [chain] in Hc. destruct Hc as (Hhd & Hcnt & Hle & He & Hnx).
    pose proof (setok_rest_pages _ _ _ _ _ _ Hs) as Hrest.
    rewrite Hhd.
    assert (Hin : in_store np h = true) by (unfold in_store; lia).
    cbn [flat] in Hfc. rewrite zlen_cons, zlen_app in Hfc.
    pose proof (zlen_nonneg _ s) as Hs0. pose proof (zlen_nonneg _ (flat rest)) as Hfr0.
    destruct (Z.eqb_spec (fc st) 0) as [Hz|Hz]; [lia|].
    destruct (Z.eqb_spec h 0) as [Hz0|_]; [lia|]. cbn [orb].
    rewrite Hin, Hcnt. cbn [negb]. geom.
    destruct s as [|x s'].
    + (* head trunk is empty: hand out the trunk page itself *)
      rewrite zlen_nil in *. cbn [Z.eqb].
      eexists _, _. split; [reflexivity|]. right. exists h.
      destruct (setok_del np b nf (flat ((h, []) :: rest)) h (flat rest)) as (Hxb & Hxr & Hs').
      { apply Permutation_refl. }
      { exact Hs. }
      split; [reflexivity|]. split; [exact Hxb|].
      exists rest. constructor; cbn [mem head fc].
      * exact Hnx.
      * exact Hs'.
      * lia.
    + (* pop the top entry; an emptied trunk stays at the head *)
      rewrite zlen_cons in *. pose proof (zlen_nonneg _ s') as Hs'0.
      destruct (Z.eqb_spec (zlen s' + 1) 0) as [Hbad|_]; [lia|].
      destruct (Z.gtb_spec (16 + 8 + (zlen s' + 1 - 1) * 4 + 4) 16384) as [Hbad|_]; [lia|].
      replace (zlen s' + 1 - 1) with (zlen s') by lia.
      cbn [ents] in He. destruct He as [Hx He']. geom. rewrite Hx.
      eexists _, _. split; [reflexivity|]. right. exists x.
      destruct (setok_del np b nf (flat ((h, x :: s') :: rest)) x (flat ((h, s') :: rest))) as (Hxb & Hxr & Hs').
      { exact (perm_swap x h (s' ++ flat rest)). }
      { exact Hs. }
      split; [reflexivity|]. split; [exact Hxb|].
      exists ((h, s') :: rest). constructor; cbn [mem head fc].
      * apply chain_cons_intro.
        -- reflexivity.
        -- apply mget_mset_same.
        -- geom. lia.
        -- eapply ents_frame; [|exact He']. intros k Hk.
           rewrite mget_mset_other by (geom; lia). reflexivity.
        -- rewrite mget_mset_other by (geom; lia).
           apply chain_frame_mset; [exact Hrest|lia|geom; lia|exact Hnx].
      * exact Hs'.
      * cbn [flat]. rewrite zlen_cons, zlen_app. lia.
Qed.

(* ------------------------------------------------------------------ the client's own writes *)
Lemma poke_core : forall np st b nf ts p i v,
  Core np st b nf ts -> 0 <= p < np -> 0 <= i < WORDS -> bmem p b = false ->
  exists st', poke np st p i v = (st', OOk) /\ Core np st' b nf ts.
Proof.
  intros np st b nf ts p i v HC Hp Hi Hpb. unfold poke.
  assert (Hc : in_store np p && (0 <=? i) && (i <? WORDS) = true) by (unfold in_store; lia).
  rewrite Hc. eexists. split; [reflexivity|].
  destruct HC as [Hch Hs Hfc]. constructor; cbn [mem head fc]; try assumption.
  apply chain_frame_mset; [|lia|exact Hi|exact Hch].
  intros t Ht. apply pages_in_flat in Ht.
  destruct Hs as (_ & Hbag & Hr & _). specialize (Hr t Ht). split; [lia|].
  intros ->. apply Hbag in Ht. congruence.
Qed.
