(* C14: side conditions of the correctness theorems and the finding classes, as decidable
   predicates (definitions only).  The same functions are known_class in Corr/C14.v, so the
   check and the theorems talk about one partition.

   History: classes 1..12 were the defects of the original tree (eval_expr `_ => true`, NULL = NULL
   TRUE, NULL IN (.., NULL) TRUE, NOT IN / NOT BETWEEN / NOT LIKE with NULL TRUE, (p) IS NULL never
   UNKNOWN, select list UNKNOWN -> FALSE, constant folding of NULL <> 1 and 1 = 1.0, folded FALSE
   => planner error, LIKE '%' literal-first, IN epsilon equality, i64::MIN literal, NOT
   precedence).  They are fixed in /repo (known_findings.d/C14.json, status "fixed"); their
   witnesses stay in the corpus and must pass.

   class  mechanism in /repo (confirmed on the real code)
    13    arithmetic over NULL evaluates to `None` instead of Value::Null (eval_arithmetic_op) and
          the BETWEEN arm of eval_tv propagates a `None` bound with `?`: x [NOT] BETWEEN (NULL + 1)
          AND h is UNKNOWN even when x > h already makes it FALSE (TRUE for NOT BETWEEN)
    99    outside the modelled expression language (no finding; never generated): an integer
          literal outside i64, a non-finite float literal, an empty IN list, a boolean cell *)
From Coq Require Import ZArith List Bool.
From TV Require Import Model.SqlSpec Model.PredImpl.
Import ListNotations.
Open Scope Z_scope.

(* what the property demands of the two query shapes (observables of Model/PredImpl.qout) *)
Definition spec_rows (e : expr) (t : table) : list Z := map (fun r => Z.b2z (passes e r)) t.
Definition code_of_tv (o : option tv) : Z :=
  match o with Some TT => 1 | Some FF => 0 | _ => 2 end.
Definition spec_vals (e : expr) (t : table) : list Z := map (fun r => code_of_tv (sem3 e r)) t.

Definition first_nz (a b : Z) : Z := if a =? 0 then b else a.
Definition is_vnull (o : option value) : bool := match o with Some VNull => true | _ => false end.

(* the spec value as the implementation represents it *)
Definition inj (v : value) : ivalue :=
  match v with
  | VNull => INull
  | VInt z => IInt z
  | VFloat b => IFloat b
  | VText s => IText s
  | VBool b => ib b
  end.

(* ---------------------------------------------------------------- the modelled language *)
(* expressions the harness can print and SQL accepts: integer literals in i64, finite float
   literals, IN lists with at least one item *)
Fixpoint wf_expr (e : expr) : bool :=
  match e with
  | ECol _ => true
  | ELit (VInt z) => i64_ok z
  | ELit (VFloat b) => f_finite b
  | ELit _ => true
  | EArith _ a b | ECmp _ a b | EAnd a b | EOr a b | ELike _ a b => wf_expr a && wf_expr b
  | ENot a | EIsNull _ a => wf_expr a
  | EIn _ a l => wf_expr a && negb (match l with [] => true | _ => false end) && forallb wf_expr l
  | EBetween _ a lo hi => wf_expr a && wf_expr lo && wf_expr hi
  end.
(* rows of BIGINT / DOUBLE PRECISION / TEXT cells *)
Definition plain_value (v : value) : bool := match v with VBool _ => false | _ => true end.
Definition plain_row (r : row) : bool := forallb plain_value r.
Definition plain_table (t : table) : bool := forallb plain_row t.

(* ---------------------------------------------------------------- class 13 *)
Definition is_arith (e : expr) : bool := match e with EArith _ _ _ => true | _ => false end.
Definition null_arith (e : expr) (r : row) : bool := is_arith e && is_vnull (eval e r).
Fixpoint cls13 (e : expr) (r : row) : Z :=
  match e with
  | ECol _ | ELit _ => 0
  | EArith _ a b | ECmp _ a b | EAnd a b | EOr a b | ELike _ a b => first_nz (cls13 a r) (cls13 b r)
  | ENot a | EIsNull _ a => cls13 a r
  | EIn _ a l =>
      first_nz (cls13 a r)
        ((fix go (l : list expr) : Z := match l with [] => 0 | i :: l' => first_nz (cls13 i r) (go l') end) l)
  | EBetween _ a lo hi =>
      first_nz (if null_arith lo r || null_arith hi r then 13 else 0)
        (first_nz (cls13 a r) (first_nz (cls13 lo r) (cls13 hi r)))
  end.

Fixpoint first_row (f : row -> Z) (t : table) : Z :=
  match t with [] => 0 | r :: t' => first_nz (f r) (first_row f t') end.

(* known_class of a query (either shape, either printing style) *)
Definition cls_query (e : expr) (t : table) : Z :=
  if wf_expr e && plain_table t then first_row (cls13 e) t else 99.
Definition cls_where (sty : Z) (e : expr) (t : table) : Z := cls_query e t.
Definition cls_select (sty : Z) (e : expr) (t : table) : Z := cls_query e t.
