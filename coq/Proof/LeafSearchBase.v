(* C30 proofs, part 2: indexing, sortedness in index form, the reference search, and the final binary
   search of find_key_simd: on a sorted page it returns the reference answer from ANY window [l, r)
   that has only smaller keys on its left and only greater keys on its right. *)
From Coq Require Import ZArith List Bool Lia ZifyBool.
From TV Require Import Lib.MachInt Lib.MachIntFacts Model.LeafSearch Proof.LeafSearchLex.
Import ListNotations.
Open Scope Z_scope.
Ltac Zify.zify_post_hook ::= Z.to_euclidean_division_equations.
Arguments Z.div : simpl never.
Arguments Z.modulo : simpl never.
Arguments Z.pow : simpl never.
Arguments Z.mul : simpl never.
Arguments Z.add : simpl never.
Arguments Z.sub : simpl never.
Arguments Z.of_nat : simpl never.
Arguments Z.to_nat : simpl never.

(* ---------------------------------------------------------------- indexing *)
Definition kat (keys : list (list Z)) (i : Z) : list Z := nth (Z.to_nat i) keys [].
Definition pfx (keys : list (list Z)) (i : Z) : Z := prefix_of (kat keys i).

Lemma klen_nonneg {A} (l : list A) : 0 <= klen l.
Proof. unfold klen. lia. Qed.

Lemma klen_map {A B} (f : A -> B) l : klen (map f l) = klen l.
Proof. unfold klen. rewrite map_length. reflexivity. Qed.

Lemma zth_in {A} (l : list A) i d : 0 <= i < klen l -> zth l i = Some (nth (Z.to_nat i) l d).
Proof.
  intro H. unfold zth, klen in *. destruct (Z.ltb_spec i 0) as [Hn|Hn]; [lia|].
  apply nth_error_nth'. lia.
Qed.

Lemma zth_keys keys i : 0 <= i < klen keys -> zth keys i = Some (kat keys i).
Proof. intro H. apply zth_in. exact H. Qed.

Lemma prefix_of_nil : prefix_of [] = 0.
Proof. reflexivity. Qed.

Lemma nth_prefixes keys n : nth n (prefixes keys) 0 = prefix_of (nth n keys []).
Proof. unfold prefixes. rewrite <- prefix_of_nil. apply map_nth. Qed.

Lemma zth_prefixes keys i : 0 <= i < klen keys -> zth (prefixes keys) i = Some (pfx keys i).
Proof.
  intro H. rewrite (zth_in (prefixes keys) i 0).
  - rewrite nth_prefixes. reflexivity.
  - unfold prefixes. rewrite klen_map. exact H.
Qed.

Lemma kat_bytes_ok keys i : keys_ok keys = true -> bytes_ok (kat keys i) = true.
Proof.
  intro H. unfold kat, keys_ok in *. rewrite forallb_forall in H.
  destruct (Nat.lt_ge_cases (Z.to_nat i) (length keys)) as [Hl|Hl].
  - apply H. apply nth_In. exact Hl.
  - rewrite nth_overflow by exact Hl. reflexivity.
Qed.

Lemma pfx_range keys i : keys_ok keys = true -> 0 <= pfx keys i < 2 ^ 32.
Proof. intro H. apply prefix_of_range. apply kat_bytes_ok. exact H. Qed.

(* ---------------------------------------------------------------- sortedness in index form *)
Definition sorted_idx (keys : list (list Z)) : Prop :=
  forall i j, 0 <= i -> i < j -> j < klen keys -> lex_cmp (kat keys i) (kat keys j) = Lt.

Lemma strict_sorted_head t : forall a, strict_sorted (a :: t) = true ->
  strict_sorted t = true /\ Forall (fun x => lex_cmp a x = Lt) t.
Proof.
  induction t as [|b t IH]; intros a H.
  - split; [reflexivity | constructor].
  - cbn [strict_sorted] in H. destruct (lex_cmp a b) eqn:Eab; try discriminate.
    change (strict_sorted (b :: t) = true) in H.
    split; [exact H|].
    destruct (IH b H) as [_ Hb].
    constructor; [exact Eab|].
    eapply Forall_impl; [|exact Hb]. intros x Hx. cbv beta in Hx. eapply lex_lt_trans; eassumption.
Qed.

Lemma strict_sorted_nat keys : strict_sorted keys = true ->
  forall i j, (i < j)%nat -> (j < length keys)%nat -> lex_cmp (nth i keys []) (nth j keys []) = Lt.
Proof.
  induction keys as [|a t IH]; intros H i j Hij Hj; [cbn [length] in Hj; lia|].
  destruct (strict_sorted_head t a H) as [Ht Ha].
  destruct j as [|j]; [lia|]. cbn [length] in Hj.
  destruct i as [|i]; cbn [nth].
  - rewrite Forall_forall in Ha. apply Ha. apply nth_In. lia.
  - apply IH; [exact Ht | lia | lia].
Qed.

Lemma strict_sorted_idx keys : strict_sorted keys = true -> sorted_idx keys.
Proof.
  intros H i j Hi Hij Hj. unfold kat, klen in *. apply strict_sorted_nat; [exact H | lia | lia].
Qed.

(* prefixes of a sorted page are non-decreasing *)
Lemma pfx_mono keys i j : sorted_idx keys -> keys_ok keys = true ->
  0 <= i -> i <= j -> j < klen keys -> pfx keys i <= pfx keys j.
Proof.
  intros Hs Hk Hi Hij Hj. destruct (Z.eq_dec i j) as [->|Hne]; [lia|].
  apply prefix_mono; try (apply kat_bytes_ok; exact Hk).
  apply Hs; lia.
Qed.

(* ---------------------------------------------------------------- the reference search *)
Lemma lin_from_found k : forall keys i0 n, (n < length keys)%nat ->
  (forall j, (j < n)%nat -> lex_cmp (nth j keys []) k = Lt) ->
  lex_cmp (nth n keys []) k = Eq ->
  lin_from i0 keys k = Found (i0 + Z.of_nat n).
Proof.
  induction keys as [|x t IH]; intros i0 n Hn Hlt Heq; [cbn [length] in Hn; lia|].
  destruct n as [|n]; cbn [lin_from].
  - cbn [nth] in Heq. rewrite Heq. f_equal. lia.
  - pose proof (Hlt O ltac:(lia)) as H0. cbn [nth] in H0. rewrite H0. cbn [length] in Hn.
    rewrite (IH (i0 + 1) n); [f_equal; lia | lia | | exact Heq].
    intros j Hj. apply (Hlt (S j)). lia.
Qed.

Lemma lin_from_notfound k : forall keys i0 n, (n <= length keys)%nat ->
  (forall j, (j < n)%nat -> lex_cmp (nth j keys []) k = Lt) ->
  ((n < length keys)%nat -> lex_cmp (nth n keys []) k = Gt) ->
  lin_from i0 keys k = NotFound (i0 + Z.of_nat n).
Proof.
  induction keys as [|x t IH]; intros i0 n Hn Hlt Hgt.
  - cbn [length] in Hn. assert (n = O) by lia. subst. cbn [lin_from]. f_equal. lia.
  - destruct n as [|n]; cbn [lin_from].
    + cbn [nth length] in Hgt. rewrite Hgt by lia. f_equal. lia.
    + pose proof (Hlt O ltac:(lia)) as H0. cbn [nth] in H0. rewrite H0. cbn [length] in Hn, Hgt.
      rewrite (IH (i0 + 1) n); [f_equal; lia | lia | | ].
      * intros j Hj. apply (Hlt (S j)). lia.
      * intro Hl. apply Hgt. lia.
Qed.

Lemma lin_found keys k i : 0 <= i < klen keys ->
  (forall j, 0 <= j < i -> lex_cmp (kat keys j) k = Lt) ->
  lex_cmp (kat keys i) k = Eq ->
  lin_search keys k = Found i.
Proof.
  intros Hi Hlt Heq. unfold lin_search, klen, kat in *.
  rewrite (lin_from_found k keys 0 (Z.to_nat i)); [f_equal; lia | lia | | exact Heq].
  intros j Hj. specialize (Hlt (Z.of_nat j)). rewrite Nat2Z.id in Hlt. apply Hlt. lia.
Qed.

Lemma lin_notfound keys k i : 0 <= i <= klen keys ->
  (forall j, 0 <= j < i -> lex_cmp (kat keys j) k = Lt) ->
  (i < klen keys -> lex_cmp (kat keys i) k = Gt) ->
  lin_search keys k = NotFound i.
Proof.
  intros Hi Hlt Hgt. unfold lin_search, klen, kat in *.
  rewrite (lin_from_notfound k keys 0 (Z.to_nat i)); [f_equal; lia | lia | | ].
  - intros j Hj. specialize (Hlt (Z.of_nat j)). rewrite Nat2Z.id in Hlt. apply Hlt. lia.
  - intro Hl. apply Hgt. lia.
Qed.

(* ---------------------------------------------------------------- windows *)
(* a window that keeps the answer: only smaller keys before l, only greater keys from r on *)
Definition window_valid (keys : list (list Z)) (k : list Z) (l r : Z) : Prop :=
  0 <= l /\ l <= r /\ r <= klen keys /\
  (forall j, 0 <= j < l -> lex_cmp (kat keys j) k = Lt) /\
  (forall j, r <= j < klen keys -> lex_cmp (kat keys j) k = Gt).

Lemma window_move_left keys k l r m : sorted_idx keys ->
  window_valid keys k l r -> l <= m < r -> lex_cmp (kat keys m) k = Lt ->
  window_valid keys k (m + 1) r.
Proof.
  intros Hs (Hl & Hlr & Hr & HL & HR) Hm Hlt.
  repeat split; try lia; [|exact HR].
  intros j Hj. destruct (Z.eq_dec j m) as [->|Hne]; [exact Hlt|].
  eapply lex_lt_trans; [|exact Hlt]. apply Hs; lia.
Qed.

Lemma window_move_right keys k l r m : sorted_idx keys ->
  window_valid keys k l r -> l <= m < r -> lex_cmp (kat keys m) k = Gt ->
  window_valid keys k l m.
Proof.
  intros Hs (Hl & Hlr & Hr & HL & HR) Hm Hgt.
  repeat split; try lia; [exact HL|].
  intros j Hj. destruct (Z.eq_dec j m) as [->|Hne]; [exact Hgt|].
  apply lex_cmp_gt_lt. apply lex_cmp_gt_lt in Hgt.
  eapply lex_lt_trans; [exact Hgt|]. apply Hs; lia.
Qed.

Lemma window_found keys k l r m : sorted_idx keys ->
  window_valid keys k l r -> l <= m < r -> lex_cmp (kat keys m) k = Eq ->
  lin_search keys k = Found m.
Proof.
  intros Hs (Hl & Hlr & Hr & HL & HR) Hm Heq.
  apply lin_found; [lia | | exact Heq].
  intros j Hj. apply lex_cmp_eq in Heq. rewrite <- Heq. apply Hs; lia.
Qed.

Lemma window_closed keys k l : window_valid keys k l l -> lin_search keys k = NotFound l.
Proof.
  intros (Hl & _ & Hr & HL & HR). apply lin_notfound; [lia | exact HL |].
  intro Hlt. apply HR. lia.
Qed.

(* ---------------------------------------------------------------- final binary search of find_key_simd *)
Lemma final_loop_correct keys k : sorted_idx keys -> keys_ok keys = true -> bytes_ok k = true ->
  forall fuel l r, window_valid keys k l r -> (Z.to_nat (r - l) < fuel)%nat ->
  final_loop fuel keys k (prefix_of k) l r = Done (lin_search keys k).
Proof.
  intros Hs Hk Hb. induction fuel as [|f IH]; intros l r Hw Hf; [lia|].
  cbn [final_loop].
  destruct (Z.ltb_spec l r) as [Hlr|Hlr].
  - set (m := l + (r - l) / 2).
    assert (Hm : l <= m < r) by (unfold m; lia).
    assert (Hr : r <= klen keys) by (destruct Hw as (_ & _ & Hr & _); exact Hr).
    assert (Hl0 : 0 <= l) by (destruct Hw as (Hl0 & _); exact Hl0).
    rewrite (zth_keys keys m) by lia.
    pose proof (kat_bytes_ok keys m Hk) as Hbm.
    destruct (Z.compare_spec (prefix_of (kat keys m)) (prefix_of k)) as [E|E|E].
    + destruct (lex_cmp (kat keys m) k) eqn:Ec.
      * f_equal. symmetry. eapply window_found; eassumption.
      * apply IH; [eapply window_move_left; eassumption | lia].
      * apply IH; [eapply window_move_right; eassumption | lia].
    + apply IH; [|lia]. eapply window_move_left; try eassumption.
      apply prefix_lt_lex_lt; assumption.
    + apply IH; [|lia]. eapply window_move_right; try eassumption.
      apply prefix_gt_lex_gt; assumption.
  - assert (l = r) by (destruct Hw as (_ & Hlr' & _); lia). subst r.
    f_equal. symmetry. apply window_closed. exact Hw.
Qed.

(* plain binary search over the full keys = the reference search *)
Lemma bsearch_loop_correct keys k : sorted_idx keys ->
  forall fuel l r, window_valid keys k l r -> (Z.to_nat (r - l) < fuel)%nat ->
  bsearch_loop fuel keys k l r = Done (lin_search keys k).
Proof.
  intros Hs. induction fuel as [|f IH]; intros l r Hw Hf; [lia|].
  cbn [bsearch_loop].
  destruct (Z.ltb_spec l r) as [Hlr|Hlr].
  - set (m := l + (r - l) / 2).
    assert (Hm : l <= m < r) by (unfold m; lia).
    assert (Hr : r <= klen keys) by (destruct Hw as (_ & _ & Hr & _); exact Hr).
    assert (Hl0 : 0 <= l) by (destruct Hw as (Hl0 & _); exact Hl0).
    rewrite (zth_keys keys m) by lia.
    destruct (lex_cmp (kat keys m) k) eqn:Ec.
    + f_equal. symmetry. eapply window_found; eassumption.
    + apply IH; [eapply window_move_left; eassumption | lia].
    + apply IH; [eapply window_move_right; eassumption | lia].
  - assert (l = r) by (destruct Hw as (_ & Hlr' & _); lia). subst r.
    f_equal. symmetry. apply window_closed. exact Hw.
Qed.

Lemma window_full keys k : window_valid keys k 0 (klen keys).
Proof.
  pose proof (klen_nonneg keys). repeat split; try lia; intros j Hj; lia.
Qed.

Lemma bsearch_correct keys k : strict_sorted keys = true -> bsearch keys k = Done (lin_search keys k).
Proof.
  intro H. unfold bsearch. apply bsearch_loop_correct.
  - apply strict_sorted_idx. exact H.
  - apply window_full.
  - unfold klen. lia.
Qed.

(* ---------------------------------------------------------------- prefix windows *)
(* what the narrowing step establishes on the slot prefixes (strict on both sides) *)
Definition pwindow (keys : list (list Z)) (t l r : Z) : Prop :=
  0 <= l /\ l <= r /\ r <= klen keys /\
  (forall j, 0 <= j < l -> pfx keys j < t) /\
  (forall j, r <= j < klen keys -> t < pfx keys j).

Lemma pwindow_valid keys k l r : keys_ok keys = true -> bytes_ok k = true ->
  pwindow keys (prefix_of k) l r -> window_valid keys k l r.
Proof.
  intros Hk Hb (Hl & Hlr & Hr & HL & HR).
  repeat split; try lia; intros j Hj.
  - apply prefix_lt_lex_lt; [apply kat_bytes_ok; exact Hk | exact Hb | apply HL; exact Hj].
  - apply prefix_gt_lex_gt; [apply kat_bytes_ok; exact Hk | exact Hb | apply HR; exact Hj].
Qed.
