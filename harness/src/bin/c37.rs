//! C37 group commit: the REAL `GroupCommitQueue` driven by 2-3 committer threads under the
//! deterministic scheduler.  Every committer runs `commit()` below, a line-by-line copy of the
//! caller protocol of `Database::execute_small_commit` (src/database/transaction.rs) in which the
//! WAL is a vector of (batch id, thread, commit number) and a write failure can be injected.
//! The copy carries the hook sites of the original (401, 402, 404, 403) plus one of its own: 406
//! after `fail_batch` (mirrors 306 of `complete_batch`).  The original itself runs under the
//! scheduler, on real Database handles, in c38.rs.
//!
//!   gen    cases = (programs, schedule, everything observed) for coq/Corr/C37.v
//!   search the property's oracle only (no model), random schedules, prints FAIL lines
use std::sync::{mpsc, Arc, Mutex};
use std::time::{Duration, Instant};
use turdb::database::group_commit::{CommitPayload, GroupCommitQueue, PendingCommit};
use turdb::memory::PageBufferPool;
use turdb::verif_hooks::sched_point;
use tvh::sched::*;
use tvh::*;

const INJECTED: &str = "injected wal write failure";

#[derive(Clone, Copy, Debug, PartialEq, Eq)]
struct Op {
    empty: bool,
    /// Some(j): if this commit writes a batch, the write of payload number j fails
    wfail: Option<usize>,
}

type Log = Mutex<Vec<(u64, u32, u32)>>;

/// stand-in for `execute_group_wal_flush`: one critical section, payloads in batch order,
/// stops at the first failing write
fn wal_flush(log: &Log, batch: &[Arc<PendingCommit>], wfail: Option<usize>) -> Result<(), String> {
    let mut g = log.lock().unwrap();
    for (j, c) in batch.iter().enumerate() {
        if wfail == Some(j) {
            return Err(INJECTED.to_string());
        }
        let (t, k) = c.payload.first().map(|e| (e.0, e.1)).unwrap_or((u32::MAX, u32::MAX));
        g.push((c.batch_id, t, k));
    }
    Ok(())
}

/// the caller protocol of execute_small_commit (from the point where the payload was captured),
/// as it is since /repo 77fabcc: only the elected leader calls take_pending
fn commit(q: &GroupCommitQueue, log: &Log, failed: &Mutex<Vec<u64>>, payload: CommitPayload, wfail: Option<usize>) -> Result<u64, String> {
    sched_point(401);
    let (batch_id, batch) = match q.submit_and_wait_role(payload) {
        Ok((batch_id, is_leader)) => {
            sched_point(402);
            (batch_id, if is_leader { q.take_pending() } else { None })
        }
        Err(e) => return Err(format!("group commit failed: {}", e)),
    };
    if let Some(pending_commits) = batch {
        sched_point(404);
        let result = wal_flush(log, &pending_commits, wfail);
        sched_point(403);
        match &result {
            Ok(()) => q.complete_batch(&pending_commits),
            Err(e) => {
                failed.lock().unwrap().extend(pending_commits.iter().map(|c| c.batch_id));
                q.fail_batch(&pending_commits, e);
                sched_point(406);
            }
        }
        result.map_err(|e| format!("flush: {}", e))?;
    }
    Ok(batch_id)
}

#[derive(Clone, Debug, Default)]
struct Obs {
    sched: Vec<usize>,
    /// per step: outcome, statuses of all threads, pending_count, log length
    steps: Vec<(i64, Vec<i64>, usize, usize)>,
    log: Vec<(u64, u32, u32)>,
    /// per thread: (commit number, code, batch id, log length at return)
    results: Vec<Vec<(u32, i64, u64, usize)>>,
    failed: Vec<u64>,
    drained: bool,
    probe: i64,
    /// per step: which threads were parked at a site before the step (for the enumeration)
    avail: Vec<Vec<usize>>,
    /// facts for the distribution / nontrivial
    blocked_steps: usize,
    preemptions: usize,
}

fn status_code(s: TState) -> i64 {
    match s {
        TState::NotStarted => -3,
        TState::AtSite(n) => n as i64,
        TState::Running => 1,
        TState::Finished => 2,
    }
}

/// how the schedule is produced
#[derive(Clone, Copy)]
enum Plan<'a> {
    /// exactly these entries, then round robin until everybody has finished
    Fixed(&'a [usize]),
    /// default policy (stay on the current thread while it can run, else the next one in cyclic
    /// order) with forced switches: (step index, thread)
    Preempt(&'a [(usize, usize)]),
    /// random: stay with probability 1 - 1/sw, sometimes pick a thread that cannot run
    Random(u64, u64),
}

/// Blocking is detected by a time-out, so a run on a heavily loaded machine can mistake a slow
/// thread for a blocked one.  Such a run betrays itself (a "blocked" thread shows up at a site
/// although nobody has called notify_all since): it is discarded and repeated.
/// The second component is true for a SUSPECT result (some thread never came back, or the probe
/// was not answered): its threads have been leaked, so the caller must not run further cases in
/// this process; a suspect result is only reported after it has repeated itself in fresh
/// processes.
fn run_case(progs: &[Vec<Op>], plan: Plan) -> (Obs, bool) {
    let mut last = None;
    for _ in 0..5 {
        let (o, flaky, suspect) = run_once(progs, plan);
        if suspect { return (o, true); }
        if !flaky { return (o, false); }
        if std::env::var("C37_DEBUG").is_ok() { eprintln!("c37: flaky run repeated: {}", replay_line(progs, &o.sched)); }
        last = Some(o);
        std::thread::sleep(Duration::from_millis(50));
    }
    (last.unwrap(), true)
}

fn run_once(progs: &[Vec<Op>], plan: Plan) -> (Obs, bool, bool) {
    let n = progs.len();
    let q = Arc::new(GroupCommitQueue::with_default_config());
    let pool = PageBufferPool::new(16);
    let log: Arc<Log> = Arc::new(Mutex::new(vec![]));
    let failed: Arc<Mutex<Vec<u64>>> = Arc::new(Mutex::new(vec![]));
    let results: Vec<Arc<Mutex<Vec<(u32, i64, u64, usize)>>>> = (0..n).map(|_| Arc::new(Mutex::new(vec![]))).collect();
    let s = Scheduler::new(n);
    s.install();
    let mut hs = vec![];
    for (id, prog) in progs.iter().cloned().enumerate() {
        let (q, pool, log, failed, res) = (Arc::clone(&q), pool.clone(), Arc::clone(&log), Arc::clone(&failed), Arc::clone(&results[id]));
        hs.push(s.spawn(id, move || {
            for (k0, op) in prog.iter().enumerate() {
                let k = k0 as u32 + 1;
                let mut payload = CommitPayload::new();
                if !op.empty {
                    let buf = pool.acquire().expect("pool");
                    payload.push((id as u32, k, buf, 0));
                }
                let r = commit(&q, &log, &failed, payload, op.wfail);
                let ll = log.lock().unwrap().len();
                let (code, bid) = match r {
                    Ok(b) => (0, b),
                    Err(e) if e.starts_with("flush: ") => (2, 0),
                    Err(e) if e.contains(INJECTED) => (1, 0),
                    Err(e) if e.contains("timeout") => (3, 0),
                    Err(_) => (4, 0),
                };
                res.lock().unwrap().push((k, code, bid, ll));
            }
        }));
    }
    s.wait_all_started();
    let mut o = Obs { results: vec![vec![]; n], ..Default::default() };
    let statuses = |s: &Scheduler| -> Vec<i64> { (0..n).map(|i| status_code(s.state(i))).collect() };
    let runnable = |s: &Scheduler| -> Vec<usize> { (0..n).filter(|&i| matches!(s.state(i), TState::AtSite(_))).collect() };
    let mut rng = Rng::new(match plan { Plan::Random(seed, _) => seed, _ => 0 });
    let mut cur: usize = 0;
    let mut idx = 0usize;
    let mut stuck = false;
    let mut flaky = false;
    let mut believed_blocked: Vec<usize> = vec![];
    let max_steps = 400;
    loop {
        if believed_blocked.iter().any(|&b| s.state(b) != TState::Running) { flaky = true; }
        let av = runnable(&s);
        let fixed_left = match &plan { Plan::Fixed(l) => idx < l.len(), _ => false };
        if av.is_empty() && !fixed_left {
            if s.all_finished() { break; }
            // nobody parked: either a woken thread is still on its way to a site, or deadlock
            let t0 = Instant::now();
            while runnable(&s).is_empty() && !s.all_finished() && t0.elapsed() < Duration::from_secs(3) {
                std::thread::sleep(Duration::from_micros(200));
            }
            if runnable(&s).is_empty() && !s.all_finished() { stuck = true; break; }
            continue;
        }
        if idx >= max_steps { stuck = !s.all_finished(); break; }
        // default policy choice
        let policy = if av.contains(&cur) { cur } else { (1..=n).map(|d| (cur + d) % n).find(|u| av.contains(u)).unwrap_or(cur) };
        let t = match &plan {
            Plan::Fixed(l) => if idx < l.len() { l[idx] % n } else { policy },
            Plan::Preempt(ps) => match ps.iter().find(|(p, _)| *p == idx) { Some((_, u)) => *u % n, None => policy },
            Plan::Random(_, sw) => {
                if rng.chance(1, 25) { rng.below(n as u64) as usize }
                else if rng.chance(1, *sw) || !av.contains(&cur) { *rng.pick(&av) }
                else { cur }
            }
        };
        // a preemption: switching away from a thread that is parked in the middle of a commit
        if t != cur && av.contains(&t) && matches!(s.state(cur), TState::AtSite(x) if x != 0 && x != 401) { o.preemptions += 1; }
        o.avail.push(av.clone());
        let before = s.state(t);
        let mut out = s.step(t);
        if out == StepOutcome::Blocked {
            // only the step from site 302 can block (flush_complete.wait_for); anywhere else, or if
            // the thread arrives a little later, it was merely slow
            let may_block = before == TState::AtSite(302);
            let t0 = Instant::now();
            let grace = if may_block { Duration::from_millis(90) } else { Duration::from_secs(5) };
            while t0.elapsed() < grace {
                match s.state(t) {
                    TState::AtSite(x) => { out = StepOutcome::Reached(x); break; }
                    TState::Finished => { out = StepOutcome::Finished; break; }
                    _ => std::thread::sleep(Duration::from_micros(200)),
                }
            }
        }
        let code = match out {
            StepOutcome::Reached(x) => x as i64,
            StepOutcome::Finished => 2,
            StepOutcome::Blocked => { o.blocked_steps += 1; believed_blocked.push(t); 1 }
            StepOutcome::Skipped => 3,
        };
        // a step that performed notify_all (it ends at 306 / 406) releases every waiter: each of
        // them runs on to its next site by itself
        if matches!(out, StepOutcome::Reached(306) | StepOutcome::Reached(406)) {
            let t0 = Instant::now();
            while (0..n).any(|i| s.state(i) == TState::Running) && t0.elapsed() < Duration::from_secs(5) {
                std::thread::sleep(Duration::from_micros(100));
            }
            believed_blocked.clear();
        }
        o.sched.push(t);
        o.steps.push((code, statuses(&s), q.pending_count(), log.lock().unwrap().len()));
        if matches!(out, StepOutcome::Reached(_) | StepOutcome::Finished | StepOutcome::Blocked) { cur = t; }
        idx += 1;
    }
    o.drained = !stuck;
    if stuck && std::env::var("C37_DEBUG").is_ok() {
        eprintln!("c37: stuck: {} flaky={} codes={:?} states={:?} pending={} loglen={}", replay_line(progs, &o.sched), flaky,
            o.steps.iter().map(|x| x.0).collect::<Vec<_>>(), (0..n).map(|i| s.state(i)).collect::<Vec<_>>(), q.pending_count(), log.lock().unwrap().len());
    }
    // snapshot before any 30 s timeout of a stuck waiter can change the picture
    o.log = log.lock().unwrap().clone();
    o.failed = failed.lock().unwrap().clone();
    for i in 0..n { o.results[i] = results[i].lock().unwrap().clone(); }
    o.probe = 2;
    if !stuck {
        for h in hs { let _ = h.join(); }
        Scheduler::uninstall();
        // probe: is the queue still usable (flush flag not left set)?  A fresh committer must be
        // elected at once.
        let (tx, rx) = mpsc::channel();
        let (q2, pool2) = (Arc::clone(&q), pool.clone());
        std::thread::spawn(move || {
            let mut payload = CommitPayload::new();
            payload.push((99, 99, pool2.acquire().expect("pool"), 0));
            let r = q2.submit_and_wait(payload);
            if r.is_ok() {
                if let Some(b) = q2.take_pending() { q2.complete_batch(&b); }
            }
            let _ = tx.send(r.is_ok());
        });
        o.probe = match rx.recv_timeout(Duration::from_secs(10)) { Ok(true) => 1, Ok(false) => 0, Err(_) => 0 };
    } else {
        // the threads that never came back are leaked (the caller ends this process)
        Scheduler::uninstall();
    }
    let suspect = stuck || o.probe != 1;
    (o, flaky, suspect)
}

// ---------------------------------------------------------------- the property's oracle
/// None = satisfied; Some(why)
fn oracle(o: &Obs) -> Option<&'static str> {
    // at most once
    for (i, e) in o.log.iter().enumerate() {
        if o.log[..i].iter().any(|f| f.0 == e.0) { return Some("written_twice"); }
    }
    // written (with the submitter's own payload) before the submitter is told Ok
    for (t, rs) in o.results.iter().enumerate() {
        for &(k, code, bid, ll) in rs {
            if code == 0 && bid != 0 {
                let ok = o.log.iter().take(ll).any(|e| e.0 == bid && e.1 == t as u32 && e.2 == k);
                if !ok { return Some("ack_before_write"); }
            }
            if code == 0 && bid != 0 && o.failed.contains(&bid) { return Some("failure_not_reported"); }
            if code == 3 { return Some("timeout"); }
        }
    }
    if !o.drained { return Some("stuck_waiter"); }
    if o.probe != 1 { return Some("stuck_flag"); }
    None
}

// ---------------------------------------------------------------- printing / parsing
fn op_str(op: &Op) -> String {
    format!("{}{}", if op.empty { "E" } else { "C" }, match op.wfail { Some(j) => format!("!{}", j), None => String::new() })
}
fn replay_line(progs: &[Vec<Op>], sched: &[usize]) -> String {
    let mut s = format!("n={}", progs.len());
    for (i, p) in progs.iter().enumerate() {
        s.push_str(&format!(" p{}={}", i, p.iter().map(op_str).collect::<Vec<_>>().join(",")));
    }
    s.push_str(&format!(" sched={}", sched.iter().map(|t| t.to_string()).collect::<Vec<_>>().join(",")));
    s
}
fn parse_line(l: &str) -> Option<(Vec<Vec<Op>>, Vec<usize>)> {
    let mut progs: Vec<Vec<Op>> = vec![];
    let mut sched = vec![];
    for tok in l.split_whitespace() {
        if let Some(r) = tok.strip_prefix("sched=") {
            sched = r.split(',').filter(|x| !x.is_empty()).filter_map(|x| x.parse().ok()).collect();
        } else if tok.starts_with('p') && tok.contains('=') {
            let r = tok.splitn(2, '=').nth(1).unwrap_or("");
            let mut p = vec![];
            for o in r.split(',').filter(|x| !x.is_empty()) {
                let empty = o.starts_with('E');
                let wfail = o.find('!').and_then(|i| o[i + 1..].parse().ok());
                p.push(Op { empty, wfail });
            }
            progs.push(p);
        }
    }
    if progs.is_empty() || progs.iter().any(|p| p.is_empty()) { None } else { Some((progs, sched)) }
}
fn st4(x: i64) -> u64 {
    match x { 0 => 0, 1 => 1, 2 => 2, 3 => 3, 301 => 4, 302 => 5, 304 => 6, 305 => 7, 306 => 8, 401 => 9, 402 => 10, 403 => 11, 404 => 12, 406 => 13, _ => 15 }
}
/// compact encodings, see coq/Corr/C37.v
fn case_term(progs: &[Vec<Op>], o: &Obs) -> String {
    let ps: Vec<String> = progs.iter().map(|p| clist(&p.iter().map(|op| ((op.empty as u64) + 2 * op.wfail.map(|j| j as u64 + 1).unwrap_or(0)).to_string()).collect::<Vec<_>>())).collect();
    let steps: Vec<String> = o.sched.iter().zip(o.steps.iter()).map(|(t, (c, st, p, l))| {
        let mut acc: u64 = 0;
        for x in st.iter().rev() { acc = st4(*x) + 16 * acc; }
        (*t as u64 + 4 * (st4(*c) + 16 * ((*p).min(15) as u64 + 16 * ((*l).min(15) as u64 + 16 * acc)))).to_string()
    }).collect();
    let log: Vec<String> = o.log.iter().map(|e| (e.0 + 64 * (e.1 as u64 + 8 * e.2 as u64)).to_string()).collect();
    let res: Vec<String> = o.results.iter().map(|rs| clist(&rs.iter().map(|r| (r.0 as u64 + 8 * (r.1 as u64 + 8 * (r.2 + 64 * r.3 as u64))).to_string()).collect::<Vec<_>>())).collect();
    let failed: Vec<String> = o.failed.iter().map(|x| x.to_string()).collect();
    format!("Case {} {} {} {} {} {} {}", clist(&ps), clist(&steps), clist(&log), clist(&res), clist(&failed), cbool(o.drained), o.probe)
}

fn kind_of(base: &str, o: &Obs) -> String {
    match oracle(o) { Some(w) => format!("{}:{}", base, w), None => base.to_string() }
}
fn nontrivial(o: &Obs) -> bool {
    // at least one switch between two threads that are both in the middle of a commit
    o.preemptions > 0 || o.blocked_steps > 0
}

// ---------------------------------------------------------------- program sets
fn c() -> Op { Op { empty: false, wfail: None } }
fn e() -> Op { Op { empty: true, wfail: None } }
fn cf(j: usize) -> Op { Op { empty: false, wfail: Some(j) } }
fn ef(j: usize) -> Op { Op { empty: true, wfail: Some(j) } }

fn enum_sets(thorough: bool) -> Vec<(Vec<Vec<Op>>, usize)> {
    // (programs, preemption bound)
    if !thorough {
        vec![
            (vec![vec![c()], vec![c()]], 2),
            (vec![vec![c()], vec![e()]], 2),
            (vec![vec![c(), c()], vec![c()]], 2),
            (vec![vec![cf(0)], vec![c()]], 2),
            (vec![vec![c()], vec![c()], vec![c()]], 1),
        ]
    } else {
        vec![
            (vec![vec![c()], vec![c()]], 3),
            (vec![vec![c()], vec![e()]], 3),
            (vec![vec![c(), c()], vec![c()]], 3),
            (vec![vec![c(), c()], vec![c(), c()]], 2),
            (vec![vec![c(), e()], vec![c()]], 2),
            (vec![vec![cf(0)], vec![c()]], 3),
            (vec![vec![cf(1)], vec![c()]], 2),
            (vec![vec![c(), c()], vec![cf(0)]], 2),
            (vec![vec![c(), cf(1)], vec![c()]], 2),
            (vec![vec![ef(0)], vec![c(), c()]], 2),
            (vec![vec![c()], vec![c()], vec![c()]], 2),
            (vec![vec![c(), c()], vec![c()], vec![cf(0)]], 1),
        ]
    }
}

fn random_progs(rng: &mut Rng) -> Vec<Vec<Op>> {
    let n = if rng.chance(1, 2) { 2 } else { 3 };
    (0..n).map(|_| {
        let len = 1 + rng.below(if n == 2 { 3 } else { 2 }) as usize;
        (0..len).map(|_| Op { empty: rng.chance(1, 10), wfail: if rng.chance(1, 6) { Some(rng.below(3) as usize) } else { None } }).collect()
    }).collect()
}

fn main() {
    let a = Args::parse();
    match a.mode.as_str() {
        "gen" => gen(&a),
        "search" => search(&a),
        "worker" => worker(&a),
        _ => { eprintln!("c37: unknown mode"); std::process::exit(2); }
    }
}

/// One unit of work (executed in a worker process: the scheduler hook is process-global, so
/// parallelism needs processes; and a process whose run left threads behind must end).
#[derive(Clone, Debug)]
enum Task {
    /// every schedule of program set `set` with at most `bound` preemptions of the default policy
    /// whose FIRST preemption index is congruent to `res` modulo `modulus` (the schedule without
    /// preemption belongs to residue 0)
    Enum { set: usize, bound: usize, modulus: usize, res: usize },
    Random { seed: u64, count: usize },
    /// the replay lines `from..to` of a file
    Lines { file: String, from: usize, to: usize },
}
impl Task {
    fn to_args(&self) -> Vec<String> {
        match self {
            Task::Enum { set, bound, modulus, res } => vec!["enum".into(), set.to_string(), bound.to_string(), modulus.to_string(), res.to_string()],
            Task::Random { seed, count } => vec!["random".into(), seed.to_string(), count.to_string()],
            Task::Lines { file, from, to } => vec!["lines".into(), file.clone(), from.to_string(), to.to_string()],
        }
    }
    fn from_args(r: &[String]) -> Option<Task> {
        let n = |i: usize| -> Option<u64> { r.get(i).and_then(|x| x.parse().ok()) };
        match r.first().map(|x| x.as_str()) {
            Some("enum") => Some(Task::Enum { set: n(1)? as usize, bound: n(2)? as usize, modulus: n(3)? as usize, res: n(4)? as usize }),
            Some("random") => Some(Task::Random { seed: n(1)?, count: n(2)? as usize }),
            Some("lines") => Some(Task::Lines { file: r.get(1)?.clone(), from: n(2)? as usize, to: n(3)? as usize }),
            _ => None,
        }
    }
}

/// progress of a task, saved when the worker has to end early (exit code 17) and loaded by its
/// successor
#[derive(Clone, Debug, Default)]
struct Progress {
    started: bool,
    /// Enum: descriptors still to run (top = last)
    stack: Vec<Vec<(usize, usize)>>,
    /// Random: generator state and cases done; Lines: next line
    rng: u64,
    done: usize,
    /// how often the case that is next has come back suspect
    suspect_runs: usize,
}
impl Progress {
    fn save(&self, path: &Path) {
        let st: Vec<String> = self.stack.iter().map(|d| d.iter().map(|(p, u)| format!("{}:{}", p, u)).collect::<Vec<_>>().join(",")).collect();
        let _ = std::fs::write(path, format!("{}\n{}\n{}\n{}\n", self.rng, self.done, self.suspect_runs, st.join(";")));
    }
    fn load(path: &Path) -> Option<Progress> {
        let txt = std::fs::read_to_string(path).ok()?;
        let l: Vec<&str> = txt.split('\n').collect();
        if l.len() < 4 { return None; }
        let stack = if l[3].is_empty() { vec![] } else {
            l[3].split(';').map(|d| d.split(',').filter(|x| !x.is_empty()).filter_map(|x| { let mut it = x.split(':'); Some((it.next()?.parse().ok()?, it.next()?.parse().ok()?)) }).collect()).collect()
        };
        Some(Progress { started: true, stack, rng: l[0].parse().ok()?, done: l[1].parse().ok()?, suspect_runs: l[2].parse().ok()? })
    }
}

use std::path::Path;

/// Worker: runs its task, appending one line per case to `--out`
/// (kind \t nontrivial \t blocked \t oracle verdict \t replay \t term).  Exit code 17 = ended early after a
/// suspect run, progress saved in `<out>.state`: start me again.
fn worker(a: &Args) {
    let task = Task::from_args(&a.rest).expect("worker task");
    let state_path = std::path::PathBuf::from(format!("{}.state", a.out.display()));
    let mut pr = Progress::load(&state_path).unwrap_or_default();
    let mut out = String::new();
    let flush = |out: &mut String| {
        use std::io::Write as _;
        if let Ok(mut f) = std::fs::OpenOptions::new().create(true).append(true).open(&a.out) { let _ = f.write_all(out.as_bytes()); }
        out.clear();
    };
    let row = |progs: &[Vec<Op>], o: &Obs, base: &str| -> String {
        format!("{}\t{}\t{}\t{}\t{}\t{}\n", kind_of(base, o), if nontrivial(o) { 1 } else { 0 }, o.blocked_steps,
                oracle(o).unwrap_or("ok"), replay_line(progs, &o.sched), case_term(progs, o))
    };
    // what to do with the result of one case; returns false if the process has to end
    let mut settle = |pr: &mut Progress, out: &mut String, progs: &[Vec<Op>], o: &Obs, suspect: bool, base: &str| -> (bool, bool) {
        // (accepted, go_on)
        if !suspect { pr.suspect_runs = 0; out.push_str(&row(progs, o, base)); return (true, true); }
        pr.suspect_runs += 1;
        if pr.suspect_runs >= 3 {
            // it repeats itself in fresh processes: report it
            pr.suspect_runs = 0;
            out.push_str(&row(progs, o, base));
            return (true, false);
        }
        (false, false)
    };
    match &task {
        Task::Enum { set, bound, modulus, res } => {
            let (progs, _) = enum_sets(a.thorough())[*set].clone();
            if !pr.started { pr.stack = vec![vec![]]; pr.started = true; }
            while let Some(d) = pr.stack.last().cloned() {
                let (o, suspect) = run_case(&progs, Plan::Preempt(&d));
                let emit = !d.is_empty() || *res == 0;
                let (accepted, go_on) = if emit { settle(&mut pr, &mut out, &progs, &o, suspect, &format!("enum{}t", progs.len())) }
                                        else if suspect { pr.suspect_runs += 1; (pr.suspect_runs >= 3, false) } else { (true, true) };
                if accepted {
                    pr.stack.pop();
                    if d.len() < *bound && !suspect {
                        let from = d.last().map(|x| x.0 + 1).unwrap_or(0);
                        for i in from..o.sched.len() {
                            if d.is_empty() && i % modulus != *res { continue; }
                            for &u in &o.avail[i] {
                                if u != o.sched[i] {
                                    let mut d2 = d.clone();
                                    d2.push((i, u));
                                    pr.stack.push(d2);
                                }
                            }
                        }
                    }
                }
                if !go_on { flush(&mut out); pr.save(&state_path); std::process::exit(17); }
            }
        }
        Task::Random { seed, count } => {
            if !pr.started { pr.rng = Rng::new(*seed).0; pr.started = true; }
            while pr.done < *count {
                let mut rng = Rng(pr.rng);
                let progs = random_progs(&mut rng);
                let plan_seed = rng.next();
                let (o, suspect) = run_case(&progs, Plan::Random(plan_seed, 2 + (pr.done % 4) as u64));
                let (accepted, go_on) = settle(&mut pr, &mut out, &progs, &o, suspect, &format!("random{}t", progs.len()));
                if accepted { pr.rng = rng.0; pr.done += 1; }
                if !go_on { flush(&mut out); pr.save(&state_path); std::process::exit(17); }
            }
        }
        Task::Lines { file, from, to } => {
            let lines: Vec<String> = std::fs::read_to_string(file).unwrap_or_default().lines().map(|l| l.trim().to_string()).filter(|l| !l.is_empty()).collect();
            if !pr.started { pr.done = *from; pr.started = true; }
            while pr.done < (*to).min(lines.len()) {
                match parse_line(&lines[pr.done]) {
                    Some((progs, sched)) => {
                        let (o, suspect) = run_case(&progs, Plan::Fixed(&sched));
                        let (accepted, go_on) = settle(&mut pr, &mut out, &progs, &o, suspect, "replay");
                        if accepted { pr.done += 1; }
                        if !go_on { flush(&mut out); pr.save(&state_path); std::process::exit(17); }
                    }
                    None => pr.done += 1,
                }
            }
        }
    }
    flush(&mut out);
    let _ = std::fs::remove_file(&state_path);
}

struct Row { kind: String, nontrivial: bool, blocked: usize, verdict: String, replay: String, term: String }

/// run the tasks in worker processes (at most `jobs` at a time) and collect their rows in task order
fn run_tasks(a: &Args, tasks: &[Task], work_dir: &Path) -> (Vec<Row>, usize) {
    let exe = std::env::current_exe().expect("current_exe");
    let jobs: usize = std::env::var("C37_JOBS").ok().and_then(|x| x.parse().ok()).unwrap_or(12);
    let _ = std::fs::remove_dir_all(work_dir);
    std::fs::create_dir_all(work_dir).expect("work dir");
    let mut running: Vec<(usize, std::process::Child, Instant, u32)> = vec![];
    let mut queue: std::collections::VecDeque<(usize, u32)> = (0..tasks.len()).map(|i| (i, 0u32)).collect();
    let mut failed_tasks = 0usize;
    let mut restarts = 0usize;
    let task_limit = Duration::from_secs(if a.thorough() { 900 } else { 300 });
    while !queue.is_empty() || !running.is_empty() {
        while !queue.is_empty() && running.len() < jobs {
            let (ti, attempt) = queue.pop_front().unwrap();
            let out = work_dir.join(format!("t{:04}.tsv", ti));
            let child = std::process::Command::new(&exe).arg("worker").arg("--tier").arg(&a.tier).arg("--out").arg(&out)
                .args(tasks[ti].to_args()).spawn().expect("spawn worker");
            running.push((ti, child, Instant::now(), attempt));
        }
        let mut i = 0;
        let mut progressed = false;
        while i < running.len() {
            let over = running[i].2.elapsed() > task_limit;
            match running[i].1.try_wait() {
                Ok(Some(st)) => {
                    let (ti, _, _, attempt) = running.remove(i);
                    if st.code() == Some(17) && attempt < 40 { queue.push_back((ti, attempt + 1)); restarts += 1; }
                    else if !st.success() { failed_tasks += 1; eprintln!("c37: worker for task {:?} failed ({:?})", tasks[ti], st.code()); }
                    progressed = true;
                }
                _ if over => {
                    let (ti, mut ch, _, _) = running.remove(i);
                    let _ = ch.kill();
                    let _ = ch.wait();
                    eprintln!("c37: worker for task {:?} exceeded its time limit", tasks[ti]);
                    failed_tasks += 1;
                    progressed = true;
                }
                _ => i += 1,
            }
        }
        if !progressed { std::thread::sleep(Duration::from_millis(20)); }
    }
    if failed_tasks > 0 { eprintln!("c37: {} worker(s) failed", failed_tasks); std::process::exit(3); }
    let mut rows = vec![];
    for i in 0..tasks.len() {
        let txt = std::fs::read_to_string(work_dir.join(format!("t{:04}.tsv", i))).unwrap_or_default();
        for l in txt.lines() {
            let f: Vec<&str> = l.splitn(6, '\t').collect();
            if f.len() != 6 { continue; }
            rows.push(Row { kind: f[0].to_string(), nontrivial: f[1] == "1", blocked: f[2].parse().unwrap_or(0), verdict: f[3].to_string(), replay: f[4].to_string(), term: f[5].to_string() });
        }
    }
    let _ = std::fs::remove_dir_all(work_dir);
    (rows, restarts)
}

fn gen(a: &Args) {
    let mut w = CaseWriter::new(&a.out, "C37", "Corr.C37", 400);
    let t_start = Instant::now();
    let mut tasks: Vec<Task> = vec![];
    if let Some(lf) = &a.lines {
        let n = a.replay_lines().map(|l| l.len()).unwrap_or(0);
        let file = lf.display().to_string();
        let mut from = 0;
        while from < n { tasks.push(Task::Lines { file: file.clone(), from, to: (from + 25).min(n) }); from += 25; }
    } else {
        for (set, (_, bound)) in enum_sets(a.thorough()).iter().enumerate() {
            let modulus = if *bound >= 3 { 8 } else if *bound == 2 { 4 } else { 1 };
            for res in 0..modulus { tasks.push(Task::Enum { set, bound: *bound, modulus, res }); }
        }
        let mut rng = Rng::new(a.seed);
        let (chunks, per) = if a.thorough() { (32, 150) } else { (8, 40) };
        for _ in 0..chunks { tasks.push(Task::Random { seed: rng.next(), count: per }); }
    }
    let (rows, restarts) = run_tasks(a, &tasks, &a.out.join("work"));
    let mut blocked_total = 0usize;
    for r in rows {
        blocked_total += r.blocked;
        w.push(r.term, r.replay, r.nontrivial, &r.kind);
    }
    let wall = t_start.elapsed().as_secs_f64();
    w.finish(&[("blocked_steps".into(), blocked_total.to_string()), ("harness_wall_s".into(), format!("{:.1}", wall)),
               ("worker_tasks".into(), tasks.len().to_string()), ("worker_restarts".into(), restarts.to_string())]);
}

/// Oracle only (no model): random programs and schedules on the implementation.
fn search(a: &Args) {
    let budget = a.budget.min(6_000) as usize;
    let mut rng = Rng::new(a.seed ^ 0xC37C37);
    let per = 150;
    let tasks: Vec<Task> = (0..(budget + per - 1) / per).map(|_| Task::Random { seed: rng.next(), count: per }).collect();
    let work = std::path::PathBuf::from(format!("{}.work", a.out.display()));
    let (rows, _) = run_tasks(a, &tasks, &work);
    let mut s = String::new();
    let mut nf = 0;
    for r in &rows {
        if r.verdict != "ok" && nf < 20 { s.push_str(&format!("FAIL {} why={}\n", r.replay, r.verdict)); nf += 1; }
    }
    s.push_str(&format!("tried={}\n", rows.len()));
    std::fs::write(&a.out, s).expect("write search output");
}
