(* C41: corollaries across converters and the literal parser's validation. *)
From Coq Require Import ZArith List Bool Lia ZifyBool.
From TV Require Import Lib.MachInt Lib.MachIntFacts Model.Calendar Model.CalendarImpl Proof.CalendarBase
  Proof.CalendarImpl Proof.CalendarImpl2 Proof.CalendarLit.
From TV Require Gen.CalLiteral Gen.CalDefault Gen.CalFunc.
Import ListNotations.
Open Scope Z_scope.

Lemma converters_agree_l y m d : 1 <= y <= 9999 -> valid_date y m d = true ->
  CalLiteral.date_to_days_since_epoch y m d = CalDefault.days_from_ymd y m d /\
  CalFunc.date_to_days y m d = CalDefault.days_from_ymd y m d + 719163.
Proof.
  intros Hy Hv.
  destruct (literal_days_correct_l y m d Hy Hv) as [H1 _].
  destruct (default_days_correct_l y m d Hy Hv) as [H2 _].
  destruct (func_days_correct_l y m d Hy Hv) as [H3 _].
  rewrite H1, H2, H3. unfold epoch_days. rewrite rata_1970. lia.
Qed.

Lemma lit_accepts_iff_valid y m d : 0 <= y -> lit_accepts y m d = valid_date y m d.
Proof.
  intros Hy. unfold lit_accepts, valid_date. rewrite lit_dim by lia.
  destruct (1 <=? m); destruct (m <=? 12); cbn [andb]; try reflexivity.
  destruct (d <? 1) eqn:E1; destruct (1 <=? d) eqn:E2; destruct (d >? dim y m) eqn:E3; destruct (d <=? dim y m) eqn:E4;
    cbn [orb negb andb]; try reflexivity; lia.
Qed.

Lemma literal_parse_fields_l y m d : 1 <= y <= 9999 ->
  lit_parse_fields y m d = if valid_date y m d then Some (epoch_days y m d) else None.
Proof.
  intros Hy. unfold lit_parse_fields. rewrite lit_accepts_iff_valid by lia.
  destruct (valid_date y m d) eqn:Hv; [|reflexivity].
  destruct (literal_days_correct_l y m d Hy Hv) as [H _]. rewrite H. reflexivity.
Qed.

Lemma literal_timestamp_l y m d h mi s us : 1 <= y <= 9999 -> valid_date y m d = true ->
  0 <= h <= 23 -> 0 <= mi <= 59 -> 0 <= s <= 59 ->
  lit_timestamp_fields y m d h mi s us = Some (epoch_days y m d * 86400000000 + ((h * 3600 + mi * 60 + s) * 1000000 + us)).
Proof.
  intros Hy Hv Hh Hmi Hs. unfold lit_timestamp_fields. rewrite literal_parse_fields_l by lia. rewrite Hv.
  unfold lit_time_fields.
  replace (h >? 23) with false by lia. replace (mi >? 59) with false by lia. replace (s >? 59) with false by lia.
  reflexivity.
Qed.

Lemma default_dim_ok y m : 0 <= y -> default_dim y m = dim y m.
Proof.
  intros Hy. unfold default_dim, dim, is_leap, rrem. rewrite !Z.rem_mod_nonneg by lia. reflexivity.
Qed.

Lemma default_parse_fields_l y m d : 1 <= y <= 9999 ->
  default_parse_fields y m d = if valid_date y m d then Some (epoch_days y m d) else None.
Proof.
  intros Hy. unfold default_parse_fields. rewrite default_dim_ok by lia.
  destruct (valid_date y m d) eqn:Hv.
  - destruct (valid_ranges _ _ _ Hv) as [Hm Hd]. unfold valid_date in Hv.
    replace ((d <? 1) || (d >? dim y m)) with false by lia.
    destruct (default_days_correct_l y m d Hy) as [H _]; [unfold valid_date; exact Hv|]. rewrite H. reflexivity.
  - unfold valid_date in Hv. pose proof (dim_bounds y m) as Hb.
    assert (Hz : (m < 1 \/ m > 12) -> dim y m = 0).
    { intros Hm. unfold dim. repeat match goal with |- context [if ?c then _ else _] => destruct c eqn:? end; lia. }
    replace ((d <? 1) || (d >? dim y m)) with true by lia. reflexivity.
Qed.
