(* C18: the filter path -- a SELECT over a base table whose WHERE contains no EXISTS / IN and
   whose scalar subqueries are uncorrelated, subquery-free and have at most one row: the model
   (scalar_subquery_results computed up front + CompiledPredicate) returns what the reference
   semantics defines. *)
From Coq Require Import ZArith List Bool Arith Lia.
From TV Require Import Model.SqlSpec Proof.SqlSpecLaws Model.SubqSpec Model.SubqImpl Model.SubqWf Model.SubqClass.
From TV Require Import Proof.SubqLaws Proof.SetOpsBag Proof.SubqEval Proof.SubqSelect.
Import ListNotations.
Open Scope Z_scope.

(* ------------------------------------------------------------------ column references of the own level only *)
Lemma own_outer_cols : forall e, has_sub e = false -> own_outer e = false -> cols_ok (fun l _ _ => l = O) e.
Proof.
  induction e; cbn [has_sub own_outer cols_ok]; intros Hs H; auto; try discriminate;
    try (apply orb_false_iff in H; destruct H as [H1 H2]; apply orb_false_iff in Hs; destruct Hs as [Hs1 Hs2]; split; auto).
  apply negb_false_iff in H. apply Nat.eqb_eq in H. exact H.
Qed.
Lemma cols_ok_impl : forall (P Q : nat -> nat -> bool -> Prop) e,
  (forall l i q, P l i q -> Q l i q) -> cols_ok P e -> cols_ok Q e.
Proof.
  intros P Q e HPQ. induction e; cbn [cols_ok]; intro H; auto; try (destruct H; split; auto).
Qed.
Lemma look_own_agrees_inner : forall r env i q, row_plain r = true -> look_agrees (r :: env) (look_own r) O i q.
Proof.
  intros r env i q Hp r' v Hr Hv. cbn [nth_error] in Hr. inversion Hr; subst r'. cbn [look_own].
  split; [exact Hv|]. eapply row_plain_nth; eauto.
Qed.

(* ------------------------------------------------------------------ one scalar subquery *)
Lemma scalar_correct : forall widths db outer q l v,
  db_wf widths db = true -> sub_wf widths outer q = true -> scalar_class db q = 0 ->
  xeval db [l] (XScalar q) = ROk v ->
  impl_scalar db q = SVal v /\ plain_val v = true.
Proof.
  intros widths db outer q l v Hwf Hsw Hcl Hx.
  destruct q as [items s w|]; [|discriminate]. destruct items as [|it [|it2 items]]; try discriminate.
  destruct s as [k|]; [|discriminate]. cbn [sub_wf] in Hsw.
  destruct (nth_error widths k) as [rw|] eqn:Hrw; [|discriminate].
  apply andb_true_iff in Hsw. destruct Hsw as [Hit Hw].
  destruct it as [li i qq| | | | | | | | | |]; try discriminate. destruct li; [|discriminate].
  apply Nat.ltb_lt in Hit.
  rewrite xeval_scalar in Hx. apply rbind_ok in Hx. destruct Hx as [t [Ht Hv]].
  rewrite qeval_sel, seval_base in Ht. apply rbind_ok in Ht. destruct Ht as [T [HT Hsel]]. apply of_opt_ok in HT.
  assert (Hrows : forall r, In r T -> row_plain r = true /\ length r = rw)
    by (intros r Hin; eapply db_wf_row; eauto).
  assert (Hitem : forall r, In r T -> exists x, nth_error r i = Some x /\ plain_val x = true).
  { intros r Hin. destruct (Hrows r Hin) as [Hp Hl]. destruct (nth_error r i) as [x|] eqn:E.
    - exists x. split; [reflexivity|]. eapply row_plain_nth; eauto.
    - apply nth_error_None in E. lia. }
  cbn [scalar_class impl_scalar] in *. rewrite HT in *.
  destruct w as [p|].
  - (* WHERE p *)
    apply andb_true_iff in Hw. destruct Hw as [Hpf Hbare].
    destruct (own_outer p) eqn:Hoo; [discriminate|]. destruct (has_sub p) eqn:Hhs; [discriminate|].
    assert (Hdec : decor p = None) by (destruct (decor p) eqn:E; [apply decor_has_sub in E; congruence|reflexivity]).
    rewrite Hdec.
    destruct (sel_rows_filter db [l] [XCol 0 i qq] (Some p)
               (fun r => ipass (look_own r) (fun _ => None) p) (fun r => map_opt (plain_item r) [XCol 0 i qq]) T t) as [rows [Hf Hm]].
    + intros r b Hin Hb. destruct (Hrows r Hin) as [Hpl _].
      apply (ipass_agree db (r :: [l])); auto.
      * apply has_sub_no_inex; exact Hhs.
      * eapply cols_ok_impl; [|apply own_outer_cols; [exact Hhs|exact Hoo]]. intros l0 i0 q0 Hl0. cbv beta in Hl0. subst l0. apply look_own_agrees_inner. exact Hpl.
      * apply scal_agrees_nil. apply has_sub_scalars. exact Hhs.
    + intros r o Hin Ho. eapply sel_items_plain; eauto.
    + exact Hsel.
    + rewrite Hf in *. assert (Hsub : forall r, In r rows -> In r T).
      { clear -Hf. revert rows Hf. induction T as [|x T IH]; intros rows Hf r Hin; cbn [filter_opt] in Hf.
        - inversion Hf; subst. destruct Hin.
        - destruct (ipass (look_own x) (fun _ => None) p) as [b|]; [|discriminate].
          destruct (filter_opt (fun r0 => ipass (look_own r0) (fun _ => None) p) T) as [t0|]; [|discriminate].
          inversion Hf; subst. destruct b; [destruct Hin as [E|Hin]; [left; exact E|right; eapply IH; eauto]|right; eapply IH; eauto]. }
      destruct rows as [|r1 [|r2 rows]]; [| |discriminate].
      * cbn [map_opt] in Hm. inversion Hm; subst t. cbn [scalar_rows] in Hv. inversion Hv; subst v. split; reflexivity.
      * destruct (Hitem r1 (Hsub r1 (or_introl eq_refl))) as [x [Hx Hpx]].
        cbn [map_opt plain_item] in Hm. rewrite Hx in Hm. inversion Hm; subst t. cbn [scalar_rows] in Hv. inversion Hv; subst v.
        rewrite Hx. split; [reflexivity|exact Hpx].
  - (* no WHERE *)
    destruct T as [|r1 [|r2 T]]; [| |discriminate].
    + cbn [sel_rows] in Hsel. inversion Hsel; subst t. inversion Hv; subst v. split; reflexivity.
    + destruct (Hitem r1 (or_introl eq_refl)) as [x [Hx Hpx]].
      cbn [sel_rows rmap2] in Hsel.
      change (sel_items db [r1; l] [XCol 0 i qq]) with
        (rmap2 (fun v vs => ROk (v :: vs)) (xeval db [r1; l] (XCol 0 i qq)) (ROk [])) in Hsel.
      rewrite xeval_col in Hsel. cbn [nth_error] in Hsel. rewrite Hx in Hsel. cbn in Hsel. inversion Hsel; subst t.
      cbn [scalar_rows] in Hv. inversion Hv; subst v. rewrite Hx. split; [reflexivity|exact Hpx].
Qed.

(* ------------------------------------------------------------------ the scalar subqueries of a predicate *)
Lemma first_nonzero_zero : forall l, first_nonzero l = 0 -> forall x, In x l -> x = 0.
Proof.
  induction l as [|y l IH]; intros H x Hin; [destruct Hin|]. cbn [first_nonzero] in H.
  destruct (y =? 0) eqn:E; [|apply Z.eqb_neq in E; congruence]. apply Z.eqb_eq in E.
  destruct Hin as [Hx|Hin]; [congruence|apply IH; assumption].
Qed.

Lemma subs_wf_scalars : forall widths scopes e q,
  subs_wf widths scopes e = true -> In q (scalars_of e) -> sub_wf widths scopes q = true.
Proof.
  intros widths scopes. induction e; cbn [subs_wf scalars_of]; intros q0 H Hin; try (destruct Hin; fail);
    try (apply andb_true_iff in H; destruct H as [H1 H2]; apply in_app_or in Hin; destruct Hin; eauto; fail); eauto.
  destruct Hin as [E|[]]. subst. exact H.
Qed.

Lemma has_inex_no_inex : forall e, has_inex e = false -> no_inex e = true.
Proof.
  induction e; cbn [has_inex no_inex]; intro H; try reflexivity; try discriminate;
    try (apply orb_false_iff in H; destruct H as [H1 H2]; rewrite IHe1, IHe2 by assumption; reflexivity); auto.
Qed.
Lemma has_inex_decor : forall p d, decor p = Some d -> has_inex p = true.
Proof.
  induction p; cbn [decor has_inex]; intros d H; try discriminate; try reflexivity.
  destruct (decor p1) eqn:E1.
  - rewrite (IHp1 _ eq_refl). reflexivity.
  - rewrite (IHp2 _ H). apply orb_true_r.
Qed.

Lemma filter_item_plain : forall r items,
  forallb plain_col_item items = true -> map_opt (filter_item r) items = map_opt (plain_item r) items.
Proof.
  intros r. induction items as [|it items IH]; intro H; [reflexivity|].
  cbn [forallb] in H. apply andb_true_iff in H. destruct H as [H1 H2]. cbn [map_opt]. rewrite (IH H2).
  destruct it; try discriminate. destruct lvl; [reflexivity|discriminate].
Qed.

(* ------------------------------------------------------------------ no error is demanded in class 0 *)
Section NoErr.
  Variables (widths : list nat) (db : list table) (lw : nat) (r : row).
  Hypothesis Hwf : db_wf widths db = true.

  Lemma scalar_no_err : forall q,
    sub_wf widths [lw] q = true -> scalar_class db q = 0 -> xeval db [r] (XScalar q) <> RErr.
  Proof.
    intros q Hsw Hc Hx.
    destruct q as [its s w|]; [|discriminate]. destruct its as [|it [|it2 its]]; try discriminate.
    destruct s as [k2|]; [|discriminate]. cbn [sub_wf] in Hsw. destruct (nth_error widths k2) as [rw|] eqn:Hrw; [|discriminate].
    apply andb_true_iff in Hsw. destruct Hsw as [Hit Hw]. destruct it as [li i qq| | | | | | | | | |]; try discriminate. destruct li; [|discriminate].
    rewrite xeval_scalar, qeval_sel, seval_base in Hx.
    cbn [scalar_class] in Hc. destruct (nth_error db k2) as [T|] eqn:HT; cbn [of_opt rbind] in Hx; [|discriminate].
    destruct (sel_rows db [r] [XCol 0 i qq] w T) as [t| |] eqn:Hs; cbn [rbind] in Hx; try discriminate.
    - (* rows: at most one *)
      destruct w as [p2|].
      + apply andb_true_iff in Hw. destruct Hw as [Hpf2 _].
        destruct (own_outer p2) eqn:Hoo; [discriminate|]. destruct (has_sub p2) eqn:Hhs; [discriminate|].
        destruct (sel_rows_filter db [r] [XCol 0 i qq] (Some p2)
                   (fun r0 => ipass (look_own r0) (fun _ => None) p2) (fun r0 => map_opt (plain_item r0) [XCol 0 i qq]) T t) as [rows [Hf Hm]].
        * intros r0 b Hin0 Hb. destruct (db_wf_row widths db k2 T rw r0 Hwf HT Hrw Hin0) as [Hpl0 _].
          apply (ipass_agree db (r0 :: [r])); auto.
          -- apply has_sub_no_inex; exact Hhs.
          -- eapply cols_ok_impl; [|apply own_outer_cols; [exact Hhs|exact Hoo]]. intros l0 i0 q0 Hl0. cbv beta in Hl0. subst l0. apply look_own_agrees_inner. exact Hpl0.
          -- apply scal_agrees_nil. apply has_sub_scalars. exact Hhs.
        * intros r0 o Hin0 Ho. eapply sel_items_plain; eauto.
        * exact Hs.
        * rewrite Hf in Hc. destruct rows as [|r1 [|r2 rows]]; try discriminate.
          -- cbn [map_opt] in Hm. inversion Hm; subst t. discriminate.
          -- cbn [map_opt] in Hm. destruct (plain_item r1 (XCol 0 i qq)); [|discriminate]. inversion Hm; subst t. discriminate.
      + destruct T as [|r1 [|r2 T]]; try discriminate.
        * cbn [sel_rows] in Hs. inversion Hs; subst t. discriminate.
        * cbn [sel_rows rmap2] in Hs. destruct (sel_items db [r1; r] [XCol 0 i qq]) as [o| |]; cbn [rbind] in Hs; try discriminate.
          inversion Hs; subst t. destruct o; discriminate.
    - (* the subquery itself raises an error: it has no subqueries *)
      eapply (sel_rows_no_err db [r] [XCol 0 i qq] w T); [reflexivity| |exact Hs].
      destruct w as [p2|]; [|exact I]. destruct (own_outer p2); [discriminate|]. destruct (has_sub p2); [discriminate|reflexivity].
  Qed.

  Lemma vform_no_err : forall e, vform e = true -> subs_wf widths [lw] e = true ->
    (forall q, In q (scalars_of e) -> scalar_class db q = 0) -> xeval db [r] e <> RErr.
  Proof.
    induction e; cbn [vform]; intros Hf Hs Hc; try discriminate.
    - rewrite xeval_col. destruct (nth_error [r] lvl); [|discriminate]. destruct (nth_error r0 i); discriminate.
    - apply andb_true_iff in Hf. destruct Hf as [Hf1 Hf2]. cbn [subs_wf] in Hs. apply andb_true_iff in Hs. destruct Hs as [Hs1 Hs2].
      cbn [scalars_of] in Hc.
      assert (H1 := IHe1 Hf1 Hs1 (fun q Hq => Hc q (in_or_app _ _ _ (or_introl Hq)))).
      assert (H2 := IHe2 Hf2 Hs2 (fun q Hq => Hc q (in_or_app _ _ _ (or_intror Hq)))).
      rewrite xeval_arith. destruct (xeval db [r] e1), (xeval db [r] e2); cbn [rmap2]; try congruence; try discriminate.
      destruct (arith_values op a a0); discriminate.
    - cbn [subs_wf] in Hs. apply scalar_no_err; [exact Hs|]. apply Hc. left. reflexivity.
  Qed.

  Lemma pform_no_err : forall p, pform p = true -> subs_wf widths [lw] p = true -> has_inex p = false ->
    (forall q, In q (scalars_of p) -> scalar_class db q = 0) -> xeval db [r] p <> RErr.
  Proof.
    induction p; cbn [pform]; intros Hf Hs Hi Hc; try discriminate.
    - (* comparison *)
      apply andb_true_iff in Hf. destruct Hf as [Hf1 Hf2]. cbn [subs_wf] in Hs. apply andb_true_iff in Hs. destruct Hs as [Hs1 Hs2].
      cbn [scalars_of] in Hc.
      pose proof (vform_no_err _ Hf1 Hs1 (fun q Hq => Hc q (in_or_app _ _ _ (or_introl Hq)))).
      pose proof (vform_no_err _ Hf2 Hs2 (fun q Hq => Hc q (in_or_app _ _ _ (or_intror Hq)))).
      rewrite xeval_cmp. destruct (xeval db [r] p1), (xeval db [r] p2); cbn [rmap2]; try congruence; try discriminate.
      destruct (ret_tv (cmp3 op a a0)); discriminate.
    - (* AND *)
      apply andb_true_iff in Hf. destruct Hf as [Hf1 Hf2]. cbn [subs_wf] in Hs. apply andb_true_iff in Hs. destruct Hs as [Hs1 Hs2].
      cbn [has_inex] in Hi. apply orb_false_iff in Hi. destruct Hi as [Hi1 Hi2]. cbn [scalars_of] in Hc.
      pose proof (IHp1 Hf1 Hs1 Hi1 (fun q Hq => Hc q (in_or_app _ _ _ (or_introl Hq)))).
      pose proof (IHp2 Hf2 Hs2 Hi2 (fun q Hq => Hc q (in_or_app _ _ _ (or_intror Hq)))).
      rewrite xeval_and. destruct (xeval db [r] p1) as [v1| |], (xeval db [r] p2) as [v2| |]; try congruence; unfold rtv; cbn [rbind];
        try (destruct (tv_of_value v1) as [[]|]); try (destruct (tv_of_value v2) as [[]|]); cbn; discriminate.
    - (* OR *)
      apply andb_true_iff in Hf. destruct Hf as [Hf1 Hf2]. cbn [subs_wf] in Hs. apply andb_true_iff in Hs. destruct Hs as [Hs1 Hs2].
      cbn [has_inex] in Hi. apply orb_false_iff in Hi. destruct Hi as [Hi1 Hi2]. cbn [scalars_of] in Hc.
      pose proof (IHp1 Hf1 Hs1 Hi1 (fun q Hq => Hc q (in_or_app _ _ _ (or_introl Hq)))).
      pose proof (IHp2 Hf2 Hs2 Hi2 (fun q Hq => Hc q (in_or_app _ _ _ (or_intror Hq)))).
      rewrite xeval_or. destruct (xeval db [r] p1) as [v1| |], (xeval db [r] p2) as [v2| |]; try congruence; unfold rtv; cbn [rbind];
        try (destruct (tv_of_value v1) as [[]|]); try (destruct (tv_of_value v2) as [[]|]); cbn; discriminate.
    - (* NOT *)
      cbn [subs_wf has_inex scalars_of] in *. pose proof (IHp Hf Hs Hi Hc).
      rewrite xeval_not. destruct (xeval db [r] p) as [v| |]; try congruence; unfold rtv; cbn [rbind];
        try (destruct (tv_of_value v) as [[]|]); cbn; discriminate.
    - (* IS NULL *)
      cbn [subs_wf has_inex scalars_of] in *. pose proof (vform_no_err _ Hf Hs Hc).
      rewrite xeval_isnull. destruct (xeval db [r] p) as [v| |]; try congruence; cbn [rbind]; [destruct v|]; discriminate.
  Qed.
End NoErr.

(* ------------------------------------------------------------------ the statement *)
Theorem filter_path_correct : forall widths db items k lw p,
  db_wf widths db = true ->
  nth_error widths k = Some lw ->
  forallb plain_col_item items = true -> pform p = true -> subs_wf widths [lw] p = true ->
  has_inex p = false -> first_nonzero (map (scalar_class db) (scalars_of p)) = 0 ->
  forall L, nth_error db k = Some L ->
  filter_path db items L p <> MUnm ->
  agree (filter_path db items L p) (sel_rows db [] items (Some p) L).
Proof.
  intros widths db items k lw p Hwf Hlw Hitems Hpf Hsubs Hinex Hcls L HL Hunm.
  destruct (sel_rows db [] items (Some p) L) as [t| |] eqn:Hsel; cbn [agree]; [|exact I|].
  - (* rows *)
    unfold filter_path in *.
    destruct (existsb scal_err (map (impl_scalar db) (scalars_of p))) eqn:Eerr.
    + (* an error in a scalar subquery: impossible in class 0 *)
      exfalso. apply existsb_exists in Eerr. destruct Eerr as [s [Hs Hse]]. apply in_map_iff in Hs. destruct Hs as [q [Hq Hin]].
      assert (Hc : scalar_class db q = 0) by (eapply first_nonzero_zero; [exact Hcls|apply in_map; exact Hin]).
      pose proof (subs_wf_scalars widths [lw] p q Hsubs Hin) as Hsw.
      subst s. destruct q as [its s w|]; [|discriminate]. destruct its as [|it [|it2 its]]; try discriminate.
      destruct s as [k2|]; [|discriminate]. cbn [sub_wf] in Hsw. destruct (nth_error widths k2); [|discriminate].
      apply andb_true_iff in Hsw. destruct Hsw as [Hit _]. destruct it; try discriminate. destruct lvl; [|discriminate].
      cbn [impl_scalar scalar_class] in *. destruct (nth_error db k2) as [T|]; [|discriminate].
      destruct w as [p2|].
      * destruct (own_outer p2); [discriminate|]. destruct (has_sub p2) eqn:Ehs2; [discriminate|].
        destruct (decor p2); [discriminate|].
        destruct (filter_opt (fun r => ipass (look_own r) (fun _ => None) p2) T) as [[|r1 [|r2 rs]]|]; try discriminate.
        destruct (nth_error r1 i); discriminate.
      * destruct T as [|r1 [|r2 T]]; try discriminate. destruct (nth_error r1 i); discriminate.
    + destruct (forallb scal_ok (map (impl_scalar db) (scalars_of p))) eqn:Eok; cbn [negb] in *; [|congruence].
      destruct (sel_rows_filter db [] items (Some p)
                 (fun r => ipass (look_own r) (scal_table db) p) (fun r => map_opt (filter_item r) items) L t) as [rows [Hf Hm]].
      * intros r b Hin Hb. destruct (db_wf_row widths db k L lw r Hwf HL Hlw Hin) as [Hpl _].
        apply (ipass_agree db [r]); auto.
        -- apply has_inex_no_inex; exact Hinex.
        -- apply cols_ok_all. intros. apply look_own_agrees. exact Hpl.
        -- intros q Hq v Hv.
           assert (Hc : scalar_class db q = 0) by (eapply first_nonzero_zero; [exact Hcls|apply in_map; exact Hq]).
           pose proof (subs_wf_scalars widths [lw] p q Hsubs Hq) as Hsw.
           destruct (scalar_correct widths db [lw] q r v Hwf Hsw Hc Hv) as [Hi Hp]. unfold scal_table. rewrite Hi. split; [reflexivity|exact Hp].
      * intros r o Hin Ho. rewrite filter_item_plain by exact Hitems. eapply sel_items_plain; eauto.
      * exact Hsel.
      * rewrite Hf. cbv beta iota. unfold row in *. rewrite Hm. exists t. split; [reflexivity|apply bag_eq_refl].
  - (* the reference demands an error: impossible, every scalar subquery has at most one row *)
    exfalso. clear Hunm.
    assert (Hne : forall r, In r L ->
              pass_res (rtv (xeval db [r] p)) <> RErr).
    { intros r Hin.
      assert (Hx : xeval db [r] p <> RErr).
      { apply (pform_no_err widths db lw r Hwf p Hpf Hsubs Hinex).
        intros q Hq. eapply first_nonzero_zero; [exact Hcls|apply in_map; exact Hq]. }
      destruct (xeval db [r] p) as [v| |]; try congruence; unfold rtv, pass_res; cbn [rbind];
        [destruct (tv_of_value v); cbn; discriminate|discriminate]. }
    clear -Hsel Hne Hitems.
    revert Hsel Hne. induction L as [|r rest IH]; intros Hsel Hne; cbn [sel_rows] in Hsel; [discriminate|].
    pose proof (Hne r (or_introl eq_refl)) as Hr.
    assert (Hi : sel_items db [r] items <> RErr).
    { apply sel_items_no_err. clear -Hitems. induction items as [|it items IH]; [reflexivity|].
      cbn [forallb existsb] in *. apply andb_true_iff in Hitems. destruct Hitems as [H1 H2]. rewrite (IH H2).
      destruct it; try discriminate. reflexivity. }
    destruct (pass_res (rtv (xeval db [r] p))) as [kb| |]; destruct (sel_rows db [] items (Some p) rest) as [tl| |] eqn:Er;
      cbn [rmap2] in Hsel; try congruence; try discriminate.
    + destruct kb; [|discriminate]. destruct (sel_items db [r] items); cbn [rbind] in Hsel; congruence.
    + apply IH; [reflexivity|]. intros r0 Hin. apply Hne. right. exact Hin.
Qed.
