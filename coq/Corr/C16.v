(* C16 correspondence: judge what the harness observed on the real Database for one aggregate query
   against (a) the implementation model Model/AggImpl.v (model_agrees) and (b) the reference
   semantics Model/SqlSpecAgg.v, i.e. the property itself (spec_ok).
   Evaluated by vm_compute; definitions only. *)
From Coq Require Import ZArith List Bool.
From TV Require Export Model.SqlSpecAgg Model.AggImpl Model.AggClass Model.AggJoin.
Import ListNotations.
Open Scope Z_scope.

(* what Database::query returned: the rows (in the order returned; the order is not judged), an
   error, a panic, or rows of a shape the harness cannot print (never expected) *)
Inductive aout := ARows (rs : list row) | AErr | APanic | ABad.

(* SELECT <q_sel> FROM t [WHERE ..] [GROUP BY ..] [HAVING ..] over table t *)
Inductive case :=
| Agg (t : table) (q : aquery) (o : aout)
(* SELECT <q_sel> FROM t JOIN u ON t.<lk> = u.<rk> [GROUP BY ..]; q is over the joined row (the
   columns of t, then those of u) *)
| AggJ (l r : table) (lk rk : nat) (q : aquery) (o : aout).

(* the same value up to the sign of a zero double (f64::min / max and x + (-x) may give either) *)
Definition val_same (a b : value) : bool :=
  match a, b with
  | VFloat x, VFloat y => (x =? y) || (f_is_zero x && f_is_zero y)
  | _, _ => value_eqb a b
  end.
Fixpoint row_same (a b : row) : bool :=
  match a, b with
  | [], [] => true
  | x :: a', y :: b' => val_same x y && row_same a' b'
  | _, _ => false
  end.
Fixpoint remove_same (r : row) (l : list row) : option (list row) :=
  match l with
  | [] => None
  | x :: t => if row_same r x then Some t else option_map (cons x) (remove_same r t)
  end.
Fixpoint bag_same (a b : list row) : bool :=
  match a with
  | [] => match b with [] => true | _ => false end
  | r :: a' => match remove_same r b with Some b' => bag_same a' b' | None => false end
  end.

(* does the model reproduce the implementation on this case? *)
Definition agrees (m : mres) (o : aout) : bool :=
  match m, o with
  | MRows ms, ARows rs => bag_same ms rs
  | MPanic, APanic => true
  | MErr, AErr => true
  | _, _ => false
  end.
Definition model_agrees (c : case) : bool :=
  match c with
  | Agg t q o => agrees (model_query q t) o
  | AggJ l r lk rk q o => agrees (model_join_query l r lk rk q) o
  end.

(* does the implementation's behaviour satisfy the property itself on this case?  A panic never
   does; where the reference makes no demand anything else is accepted. *)
Definition satisfies (s : sres) (o : aout) : bool :=
  match o with
  | APanic | ABad => false
  | _ =>
      match s with
      | SNoDemand => true
      | SError => match o with AErr => true | _ => false end
      | SRows rs => match o with ARows os => bag_equiv rs os | _ => false end
      end
  end.
Definition spec_ok (c : case) : bool :=
  match c with
  | Agg t q o => satisfies (spec_query q t) o
  | AggJ l r lk rk q o => satisfies (spec_join_query l r lk rk q) o
  end.

(* the recorded finding class of the case (Model/AggClass.v); 0 = none; 8 = an aggregate over a join
   (computed by the hand-written path of Model/AggJoin.v) *)
Definition known_class (c : case) : Z :=
  match c with
  | Agg t q _ => q_class q t
  | AggJ _ _ _ _ _ _ => 8
  end.

Fixpoint failures_from (i : Z) (cs : list case) : list (Z * bool * bool * Z) :=
  match cs with
  | [] => []
  | c :: t =>
      let m := model_agrees c in
      let s := spec_ok c in
      if m && s then failures_from (i + 1) t else (i, m, s, known_class c) :: failures_from (i + 1) t
  end.
Definition failures := failures_from 0.
